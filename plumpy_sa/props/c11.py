"""C11 -- only spec-conforming inputs create a process; defaults applied, inputs immutable.

Decides error discipline and non-interference (no validation verdict is dropped, the caller's data is untouched, read-only
shape of the frozen mappings, default-overrides-required) -- NOT the acceptance function itself.
"""
from __future__ import annotations

import ast
from typing import List, Optional, Set, Tuple

from ..cfg import CFG, Node, cfg_of, no_exc
from ..facts import FuncFacts
from ..model import AnalysisError, FuncInfo, is_self_attr, norm, unparse, walk_shallow
from ..report import Check
from ..rules import call_sites, calls_in_func, last_name

VALIDATORS = ('validate', 'validate_ports', 'validate_dynamic_ports')


def _calls(n) -> List[ast.Call]:
    e = n.expr()
    return [x for x in walk_shallow(e) if isinstance(x, ast.Call)] if e is not None else []


def _reach_while_set(ff: FuncFacts, starts, v: str) -> Set[int]:
    """The nodes reachable (without exception edges) from ``starts``, where the local ``v`` is known to hold an error: a later test of ``v`` is followed only on the
    side that agrees, until ``v`` is bound again (``if err: pass  else: err = more()`` ; ``if err: return err``)."""
    cfg = ff.cfg
    seen: Set[Tuple[int, bool]] = set()
    work = [(s, True) for s in starts]
    out: Set[int] = set()
    while work:
        m, known = work.pop()
        if (m.id, known) in seen:
            continue
        seen.add((m.id, known))
        out.add(m.id)
        rebinds = any(isinstance(x, ast.Name) and x.id == v and isinstance(x.ctx, (ast.Store, ast.Del)) for x in ast.walk(m.ast)) if m.kind in ('stmt', 'iter', 'with', 'except') and m.ast is not None else False
        for t, label in m.succ:
            if not no_exc(m, t, label):
                continue
            if known and m.kind == 'test' and label in ('true', 'false'):
                atoms = ff.cond_atoms(m.ast.test, label == 'true')
                if ('F', v) in atoms or ('none', v) in atoms:
                    continue     # this side says "no error" while there is one
            work.append((t, known and not rebinds))
    return out


def verdict_propagated(ff: FuncFacts, call: ast.Call) -> Tuple[bool, str]:
    """The value returned by ``call`` (None = fine, anything else = an error) cannot be dropped: it is returned directly,
    or assigned to a variable that every path to a normal exit tests, with the error branch returning / raising it."""
    cfg = ff.cfg
    nodes = cfg.nodes_containing(call)
    if not nodes:
        return False, 'call site not in CFG'
    for n in nodes:
        a = n.ast
        if n.kind == 'return' and a.value is call:
            continue
        if not (n.kind == 'stmt' and isinstance(a, ast.Assign) and a.value is call and len(a.targets) == 1 and isinstance(a.targets[0], ast.Name)):
            return False, 'the verdict is neither returned nor kept in a variable'
        v = a.targets[0].id
        tests = []
        for t in cfg.nodes:
            if t.kind != 'test':
                continue
            at, af = ff.cond_atoms(t.ast.test, True), ff.cond_atoms(t.ast.test, False)
            if ('T', v) in at or ('notnone', v) in at and ('none', v) in af:
                tests.append((t, 'true'))
            elif ('T', v) in af or (('notnone', v) in af and ('none', v) in at):
                tests.append((t, 'false'))
        if not tests:
            return False, f'no test of {v} after the call'
        tnodes = [t for t, _ in tests]
        if not cfg.must_pass(n, [cfg.exit], lambda m: m in tnodes, edge_ok=no_exc):
            return False, f'a path from the call to a normal return never looks at {v}'
        for t, err_label in tests:
            starts = [s for s, l in t.succ if l == err_label]
            reach = _reach_while_set(ff, starts, v)
            for r in [m for m in cfg.nodes if m.id in reach and m.kind == 'return']:
                val = r.ast.value
                names = {x.id for x in ast.walk(val) if isinstance(x, ast.Name)} if val is not None else set()
                if v not in names:
                    return False, f'on the error branch of "{norm(t.ast.test)}" the function returns without the verdict'
            # falling off the end on the error branch
            falls = [p for p, l in cfg.exit.pred if p.kind != 'return' and p.id in reach]
            if falls:
                return False, f'on the error branch of "{norm(t.ast.test)}" the function ends normally without reporting'
    return True, 'tested on every path; the error branch returns or raises it'


def leaf_validation_not_short_circuited(chk: Check, rule: str) -> None:
    """A leaf port class that overrides ``validate`` still sends every value through ``Port.validate`` (the type check and the validator) on every way that reports
    "valid": no shortcut for values that "were validated before" -- the port's validator, type or default can be changed through its setters after it was declared
    (that is how an inherited or exposed port is tightened in define())."""
    prog = chk.prog
    base = prog.cls('ports.Port')
    ns = prog.cls('ports.PortNamespace')
    n = 0
    for k in prog.subclasses(base):
        if k is ns or k.is_subclass_of(ns) or 'validate' not in k.methods:
            continue
        f = prog.view(k.vmethods['validate'])
        ff = chk.ctx.facts.analyse(f)
        n += 1
        bad = None
        for r in [m for m in ff.cfg.nodes if m.kind == 'return']:
            v = r.ast.value
            delegated = isinstance(v, ast.Call) and isinstance(v.func, ast.Attribute) and v.func.attr == 'validate' and norm(v.func.value) in ('super()', f'super({k.name}, self)', 'Port')
            if v is None or (isinstance(v, ast.Constant) and v.value is None):
                bad = bad or r
            elif not delegated and isinstance(v, ast.Name):
                from ..rules import conditional_values as _cv
                vals = [x for _, x in _cv(ff, v.id)]
                if not vals or not all(isinstance(x, ast.Call) and (last_name(x) == 'validate' or last_name(x).endswith('Error')) for x in vals):
                    bad = bad or r
        chk.ob(rule, f, bad is None, f'{k.name}.validate reports "valid" only as the verdict of Port.validate' + ('' if bad is None else
               f': `{norm(bad.ast)}` declares a value valid without the type check and the validator having seen it'), node=bad.ast if bad is not None else None,
               kind=f'override-delegates:{k.name}')
    chk.units['leaf_validate_overrides'] = n


def run(chk: Check) -> None:
    prog = chk.prog
    verdicts(chk)
    callers_data(chk)
    read_only(chk)
    required_override(chk)
    defaults(chk)
    typed_dynamic_leaf_checked(chk, 'DOM-verdict-not-dropped')
    from .c07 import inputs_encoded_by_deepcopy
    inputs_encoded_by_deepcopy(chk, 'PROV-read-only')
    from .common import nothing_registered_before_validation
    nothing_registered_before_validation(chk, 'GUARD-no-process-on-reject')
    # the spec the inputs are checked against is the declared one: declaring a port below an existing namespace keeps that namespace (its validator, its dynamic type,
    # its populate_defaults flag) instead of replacing it by a fresh one (shared with C15)
    from .c15 import namespace_created_only_if_absent
    namespace_created_only_if_absent(chk, 'PROV-declared-spec')
    leaf_validation_not_short_circuited(chk, 'DOM-verdict-not-dropped')
    # "required ports present": a namespace implied by a dotted name is required like any other, whatever the first port declared below it says (shared with C12)
    from .c12 import implicit_namespace_takes_nothing_from_port
    implicit_namespace_takes_nothing_from_port(chk, 'PROV-declared-spec')


# ---------------------------------------------------------------------- 1. no validation verdict is dropped
def verdicts(chk: Check) -> None:
    prog = chk.prog
    n = 0
    for name in VALIDATORS:
        for f, c in call_sites(prog, name):
            if f.module.short not in ('ports', 'processes', 'process_spec'):
                continue
            n += 1
            ff = chk.ctx.facts.analyse(f)
            ok, why = verdict_propagated(ff, c)
            chk.ob('DOM-verdict-not-dropped', f, ok, f'result of {norm(c.func)}(...): {why}', node=c, kind='verdict')
    chk.floor('DOM-verdict-not-dropped', n, 9)
    # user validators: their verdict becomes the error
    pv = prog.func('ports.Port.validate')
    def alias_closure(f, start: str) -> Set[str]:
        """Names the value of ``start`` is copied to by plain ``b = a`` assignments (transitively)."""
        al = {start}
        changed = True
        while changed:
            changed = False
            for n_ in ast.walk(f.node):
                if isinstance(n_, ast.Assign) and len(n_.targets) == 1 and isinstance(n_.targets[0], ast.Name) and isinstance(n_.value, ast.Name) \
                        and n_.value.id in al and n_.targets[0].id not in al:
                    al.add(n_.targets[0].id)
                    changed = True
        return al

    ff = chk.ctx.facts.analyse(pv)
    rets = [r for r in ast.walk(pv.node) if isinstance(r, ast.Return) and r.value is not None and not (isinstance(r.value, ast.Constant))]
    err_ret = [r for r in rets if isinstance(r.value, ast.Call) and last_name(r.value) == 'PortValidationError' and r.value.args and isinstance(r.value.args[0], ast.Name)]
    errvar = err_ret[0].value.args[0].id if len(err_ret) == 1 else None   # the local that carries the message, whatever it is called
    for c in [x for x in calls_in_func(pv) if norm(x.func) in ('self.validator', 'self._validator')]:
        node = ff.cfg.nodes_containing(c)[0]
        ok = node.kind == 'stmt' and isinstance(node.ast, ast.Assign) and errvar is not None
        if ok:
            al = alias_closure(pv, norm(node.ast.targets[0]))
            stores = [m for m in ff.cfg.nodes if m.kind == 'stmt' and isinstance(m.ast, ast.Assign) and norm(m.ast.targets[0]) == errvar and norm(m.ast.value) in al]
            ok = bool(stores) and all(any(a_[0] in ('notnone', 'T') and a_[1] == norm(m.ast.value) for a_ in ff.at(m)) for m in stores) and \
                any(m.id in ff.cfg.reachable([node], edge_ok=no_exc) for m in stores)
        chk.ob('DOM-verdict-not-dropped', pv, ok, 'a port validator\'s message becomes the validation error', node=c, kind='validator-verdict')
    ok = len(rets) == 1 and errvar is not None
    ok = ok and all(any(a_[0] in ('notnone', 'T') and a_[1] == errvar for a_ in ff.at(n)) for n in ff.cfg.nodes if n.kind == 'return' and n.ast is rets[0])
    chk.ob('DOM-verdict-not-dropped', pv, ok, 'Port.validate returns an error exactly when one was found', kind='port-returns-error')
    # a validator that is configured is actually ASKED: no accepting path (return None) skips it when there was something to validate
    from ..decisions import leaf as _leaf, paths_under as _paths

    def asked_on_every_accepting_path(f_, given: dict, what: str) -> None:
        fff = chk.ctx.facts.analyse(f_)
        val = {}
        for txt, truth in given.items():
            k_, pol_ = _leaf(fff, ast.parse(txt, mode='eval').body)
            val[k_] = truth == pol_
        asks = [m for m in fff.cfg.nodes if any(norm(c.func) in ('self.validator', 'self._validator') for c in ([x for x in walk_shallow(m.expr()) if isinstance(x, ast.Call)] if m.expr() is not None else []))]
        skipped, n_acc = [], 0
        try:
            for path in _paths(fff, val, frozen=[f_.params[1]]):   # (re-binding the parameter to a copy of itself keeps what is known about it)
                if path[-1] is not fff.cfg.exit:
                    continue
                rets_ = [m for m in path if m.kind == 'return']
                v_ = rets_[-1].ast.value if rets_ else None
                if v_ is None or (isinstance(v_, ast.Constant) and v_.value is None):
                    n_acc += 1
                    if not any(m in asks for m in path):
                        skipped.append([m.lineno for m in path if m.kind in ('test', 'return')][-4:])
        except RuntimeError:
            skipped.append(['too many paths'])
        chk.ob('DOM-verdict-not-dropped', f_, bool(asks) and n_acc >= 1 and not skipped, f'{what}: of {n_acc} accepting path(s) none skips the configured validator'
               + (f' (skipping: test/return lines {skipped[:2]})' if skipped else ''), kind='validator-always-asked')
    vpn = pv.params[1]
    from .common import sentinels_are_unique_objects
    sentinels_are_unique_objects(chk, 'DOM-verdict-not-dropped')
    asked_on_every_accepting_path(pv, {f'{vpn} is UNSPECIFIED': False, 'self._validator is None': False, 'self._valid_type is None': True}, 'Port.validate, a value given and a validator configured')
    nv = prog.func('ports.PortNamespace.validate')
    namespace_value_is_mapping(chk, 'DOM-verdict-not-dropped')
    asked_on_every_accepting_path(nv, {'self._validator is None': False, f'{nv.params[1]}': True}, 'PortNamespace.validate, values given and a validator configured')
    for c in [x for x in calls_in_func(nv) if norm(x.func) in ('self.validator', 'self._validator')]:
        ff = chk.ctx.facts.analyse(nv)
        ok, why = verdict_propagated(ff, c)
        chk.ob('DOM-verdict-not-dropped', nv, ok, f'namespace validator verdict: {why}', node=c, kind='validator-verdict')
    # construction rejects: on_create raises ValueError for an error
    oc = prog.func('processes.Process.on_create')
    cfg = cfg_of(oc)
    raises = [n for n in cfg.nodes if n.kind == 'raisestmt' and n.ast.exc is not None and norm(n.ast.exc).startswith('ValueError(')]
    ff = chk.ctx.facts.analyse(oc)
    val0 = [c for c in calls_in_func(oc, 'validate')]
    vnode = ff.cfg.nodes_containing(val0[0])[0] if val0 else None
    vvar = norm(vnode.ast.targets[0]) if vnode is not None and isinstance(vnode.ast, ast.Assign) else 'result'
    ok = len(raises) == 1 and (('notnone', vvar) in ff.at(raises[0]) or ('T', vvar) in ff.at(raises[0])) and vvar in norm(raises[0].ast.exc)
    chk.ob('DOM-verdict-not-dropped', oc, ok, 'a validation error of the inputs aborts construction with ValueError', kind='construction-rejected')
    val = [c for c in calls_in_func(oc, 'validate')]
    ok = len(val) == 1 and norm(val[0].func) == 'self.spec().inputs.validate' and [norm(a) for a in val[0].args] == ['self._parsed_inputs']
    chk.ob('DOM-verdict-not-dropped', oc, ok, 'what is validated is the parsed inputs (defaults applied) against the input spec', node=val[0] if val else None, kind='validates-parsed-inputs')
    # PortNamespace.validate covers ports, dynamic values and the namespace validator, in that order of dependence
    names = [last_name(c) for c in calls_in_func(nv) if last_name(c) in ('validate_ports', 'validate_dynamic_ports')]
    chk.ob('DOM-verdict-not-dropped', nv, names == ['validate_ports', 'validate_dynamic_ports'], 'a namespace validates its declared ports, then what is left against its dynamic '
           'rules (undeclared keys are rejected unless the namespace is dynamic)', kind='namespace-stages')
    vp = prog.func('ports.PortNamespace.validate_ports')
    loops = [l for l in ast.walk(vp.node) if isinstance(l, ast.For)]
    ok = len(loops) == 1 and norm(loops[0].iter) in ('self._ports.items()', 'self.items()', 'self.ports.items()')
    pops = [c for c in calls_in_func(vp, 'pop') if norm(c.func.value) == vp.params[1]]
    ok = ok and len(pops) == 1 and norm(pops[0].args[0]) == 'name' and norm(pops[0].args[1]) == 'UNSPECIFIED'
    chk.ob('DOM-verdict-not-dropped', vp, ok, 'every declared port is validated (a missing value as UNSPECIFIED) and removed from what remains for the dynamic check', kind='all-ports')
    from .common import every_declared_port_validated
    every_declared_port_validated(chk, 'DOM-verdict-not-dropped')
    vd = prog.func('ports.PortNamespace.validate_dynamic_ports')
    ffd = chk.ctx.facts.analyse(vd)
    rets_d = [n for n in ffd.cfg.nodes if n.kind == 'return' and isinstance(n.ast.value, ast.Call) and last_name(n.ast.value) == 'PortValidationError']
    ok = any(('T', vd.params[1]) in ffd.at(n) and ('F', 'self._dynamic') in ffd.at(n) or (('T', vd.params[1]) in ffd.at(n) and ('F', 'self.dynamic') in ffd.at(n)) for n in rets_d)
    chk.ob('DOM-verdict-not-dropped', vd, ok, 'values left over for a non-dynamic namespace are an error', kind='undeclared-rejected')


def nested_mappings_copied_before_recursion(chk: Check) -> bool:
    """On every path through PortNamespace.pre_process, what is handed to the recursive pre_process is a copy (``dict(x)`` / ``copy.copy``) whenever it is a mapping at all."""
    from ..decisions import paths_under as _pu, value_on_path as _vop
    prog = chk.prog
    pp = prog.func('ports.PortNamespace.pre_process')
    ff = chk.ctx.facts.analyse(pp)
    cfg = ff.cfg
    recs = [m for m in cfg.nodes if any(isinstance(c, ast.Call) and last_name(c) == 'pre_process' for c in (walk_shallow(m.expr()) if m.expr() is not None else []))]
    if not recs:
        return False
    try:
        for path in _pu(ff, {}):
            for i, m in enumerate(path):
                if m in recs:
                    call = [c for c in walk_shallow(m.expr()) if isinstance(c, ast.Call) and last_name(c) == 'pre_process'][0]
                    arg = _vop(path, i, call.args[0]) if call.args else None
                    if arg is None:
                        return False
                    copied = isinstance(arg, ast.Call) and (norm(arg.func) in ('dict', 'copy.copy', 'copy.deepcopy') or last_name(arg) in ('copy', 'deepcopy'))
                    fresh = isinstance(arg, (ast.Dict, ast.DictComp))
                    not_mapping = any(t.kind == 'test' and 'Mapping' in norm(t.ast.test) and path[j + 1] in [s_ for s_, l_ in t.succ if l_ == 'false'] for j, t in enumerate(path[:i]) if j + 1 < len(path))
                    if not (copied or fresh or not_mapping):
                        return False
    except RuntimeError:
        return False
    return True


# ---------------------------------------------------------------------- 2. caller's data untouched
def callers_data(chk: Check) -> None:
    prog = chk.prog
    oc = prog.func('processes.Process.on_create')
    pp = [c for c in calls_in_func(oc, 'pre_process')]
    chk.need(len(pp) == 1, 'on_create no longer calls pre_process exactly once')
    arg = pp[0].args[0]
    src = arg
    srcs = [arg]
    if isinstance(arg, ast.Name):
        # every value the local can hold (one assignment, a conditional expression, or one assignment per branch of an if/else)
        srcs = [n.value for n in ast.walk(oc.node) if isinstance(n, ast.Assign) and norm(n.targets[0]) == arg.id]
        src = ast.Tuple(elts=list(srcs), ctx=ast.Load()) if srcs else None
    def is_recursive_rebuild(g) -> bool:
        """``g(value)``: a new dict at every nesting level, built by calling itself on the sub-values."""
        if g is None or isinstance(g.node, ast.Lambda):
            return False
        comp = [n_ for n_ in ast.walk(g.node) if isinstance(n_, ast.DictComp)]
        fn_ = comp[0].value.func if len(comp) == 1 and isinstance(comp[0].value, ast.Call) else None
        # (calls itself: by name, or -- a method -- through ``self`` / ``cls`` / its class)
        rec = (isinstance(fn_, ast.Name) and fn_.id == g.name) or (isinstance(fn_, ast.Attribute) and fn_.attr == g.name and g.cls is not None and isinstance(fn_.value, ast.Name)
                                                                   and fn_.value.id in ('self', 'cls', g.cls.name))
        guard = any(isinstance(n_, ast.If) and norm(n_.test).startswith('isinstance(') and 'dict' in norm(n_.test) for n_ in ast.walk(g.node))
        return rec and guard

    rc = None
    ok = False
    if src is not None:
        # every sub-expression that denotes the raw inputs must sit inside a call of a recursive dictionary rebuild
        refs = [n for n in ast.walk(src) if isinstance(n, ast.Attribute) and norm(n) in ('self._raw_inputs', 'self.raw_inputs')]
        rebuilt = []
        for c in [c for c in ast.walk(src) if isinstance(c, ast.Call)]:
            t = chk.ctx.calls.resolve_call(oc, c)
            if len(t.funcs) == 1 and is_recursive_rebuild(t.funcs[0]):
                rebuilt.append(c)
                rc = t.funcs[0]
        inside = lambda r: any(any(x is r for x in ast.walk(a)) for c in rebuilt for a in c.args)
        tests = []
        for n in ast.walk(src):
            if isinstance(n, ast.IfExp):
                tests.extend(x for x in ast.walk(n.test))
        # (references inside the test of an enclosing ``if`` / conditional expression only look at the raw inputs)
        for n in ast.walk(oc.node):
            if isinstance(n, ast.If) and any(any(v_ is x for x in ast.walk(n)) for v_ in srcs):
                tests.extend(x for x in ast.walk(n.test))
        # ... or, at the TOP level, of any construction of a new dict from it (``dict(raw)``, ``{**raw}``, a dict comprehension over its items): pre_process assigns into
        # the mapping it is given, and into nothing below it -- it copies every nested mapping before recursing (checked below)
        fresh_top = [c for c in ast.walk(src) if (isinstance(c, ast.Call) and norm(c.func) in ('dict', 'copy.copy', 'copy.deepcopy')) or isinstance(c, (ast.DictComp, ast.Dict))]
        inside_top = lambda r: any(any(x is r for x in ast.walk(c)) for c in fresh_top)
        every_value_fresh = all(isinstance(v_, (ast.Dict, ast.DictComp)) or (isinstance(v_, ast.Call) and (norm(v_.func) in ('dict', 'copy.copy', 'copy.deepcopy') or v_ in rebuilt))
                                or (isinstance(v_, ast.IfExp) and all(isinstance(b_, (ast.Dict, ast.DictComp)) or (isinstance(b_, ast.Call) and (norm(b_.func) in ('dict', 'copy.copy', 'copy.deepcopy') or b_ in rebuilt))
                                                                      for b_ in (v_.body, v_.orelse)))
                                for v_ in srcs)
        ok = (bool(rebuilt) or every_value_fresh) and all(inside(r) or inside_top(r) or any(r is t for t in tests) for r in refs)
    chk.ob('PROV-raw-inputs-untouched', oc, ok, 'the mapping handed to pre_process (which fills in defaults IN PLACE) is a newly built dict, never the raw '
           'inputs or the caller\'s dictionary themselves', node=pp[0], kind='prebuilt-copy')
    nested_ok = rc is not None or nested_mappings_copied_before_recursion(chk)
    chk.ob('PROV-raw-inputs-untouched', rc if rc is not None else oc, nested_ok, 'below the top level nothing of the raw inputs is assigned into either: the rebuild creates a new dict at every '
           'nesting level, or pre_process copies every nested mapping before it recurses into it (values themselves are shared)', kind='recursive-rebuild')
    stored = [n for n in ast.walk(oc.node) if isinstance(n, ast.Assign) and norm(n.targets[0]) == 'self._parsed_inputs']
    chk.ob('PROV-raw-inputs-untouched', oc, len(stored) == 1 and stored[0].value is pp[0], 'the parsed inputs are what pre_process returns', kind='parsed-from-pre-process')
    init = prog.func('processes.Process.__init__')
    asg = [n for n in ast.walk(init.node) if isinstance(n, ast.Assign) and norm(n.targets[0]) == 'self._raw_inputs']
    # every value stored is None or a NEW frozen mapping built from the parameter (conditional expression or if/else alike)
    ip = init.params[1] if len(init.params) > 1 else 'inputs'
    vals = []
    for a_ in asg:
        v_ = a_.value
        vals += [v_.body, v_.orelse] if isinstance(v_, ast.IfExp) else [v_]
    ok = bool(asg) and all(norm(v_) == 'None' or (isinstance(v_, ast.Call) and last_name(v_) in ('AttributesFrozendict', 'Frozendict') and [norm(x) for x in v_.args] == [ip]) for v_ in vals) \
        and any(isinstance(v_, ast.Call) for v_ in vals)
    chk.ob('PROV-raw-inputs-untouched', init, ok, 'raw_inputs is a new frozen mapping built from the caller\'s dictionary (the dictionary itself is not kept)', kind='raw-is-new-frozendict')
    for f, node in __import__('plumpy_sa.rules', fromlist=['effective_writers']).effective_writers(prog, '_raw_inputs'):
        chk.ob('PROV-raw-inputs-untouched', f, f.qualname in ('processes.Process.__init__', 'processes.Process.load_instance_state'), 'raw_inputs is assigned only at construction / load',
               node=node, kind='raw-writer', expr='_raw_inputs store')
    # namespace validation works on a copy of the values it is given
    nv = prog.func('ports.PortNamespace.validate')
    cfg = cfg_of(nv)
    copies = [n for n in cfg.nodes if n.kind == 'stmt' and isinstance(n.ast, ast.Assign) and norm(n.ast.targets[0]) == nv.params[1] and norm(n.ast.value) == f'dict({nv.params[1]})']
    vps = [n for n in cfg.nodes if any(last_name(c) == 'validate_ports' for c in _calls(n))]
    ok = len(copies) == 1 and bool(vps) and cfg.must_pass(cfg.entry, vps, lambda m: m in copies, edge_ok=no_exc)
    chk.ob('PROV-raw-inputs-untouched', nv, ok, 'validation pops declared ports from a copy, not from the parsed inputs', kind='validate-on-copy')


# ---------------------------------------------------------------------- 3. read-only shape
def read_only(chk: Check) -> None:
    prog = chk.prog
    fd = prog.cls('utils.Frozendict')
    bases = [b if isinstance(b, str) else b.qualname for b in fd.mro()]
    ok = any(b.endswith('Mapping') for b in bases) and not any('MutableMapping' in b for b in bases)
    chk.ob('OWN-frozen', fd.qualname, ok, f'Frozendict is a Mapping, not a MutableMapping (bases {bases[1:]})', kind='bases')
    for c in [fd] + prog.subclasses(fd):
        for name, f in c.emethods.items():
            if name == '__init__':
                continue
            for n in ast.walk(f.node):
                bad = None
                if isinstance(n, (ast.Assign, ast.AugAssign, ast.Delete)):
                    tg = n.targets if isinstance(n, (ast.Assign, ast.Delete)) else [n.target]
                    for t in tg:
                        for x in ast.walk(t):
                            if isinstance(x, ast.Subscript) and norm(x.value) == 'self._dict':
                                bad = n
                            if isinstance(x, ast.Attribute) and norm(x) == 'self._dict' and isinstance(x.ctx, (ast.Store, ast.Del)):
                                bad = n
                if isinstance(n, ast.Call) and isinstance(n.func, ast.Attribute) and norm(n.func.value) == 'self._dict' and n.func.attr in (
                        'update', 'pop', 'popitem', 'clear', 'setdefault', '__setitem__', '__delitem__'):
                    bad = n
                if bad is not None:
                    chk.ob('OWN-frozen', f, False, 'a method other than the constructor changes the wrapped dictionary: the inputs are not read-only', node=bad, kind='mutator')
    chk.ob('OWN-frozen', fd.qualname, True, 'no method outside __init__ stores into or mutates the wrapped dictionary', kind='no-mutator')
    init = prog.view(fd.vmethods['__init__'])
    st_ = [n for n in ast.walk(init.node) if isinstance(n, (ast.Assign, ast.AnnAssign)) and n.value is not None and norm(n.targets[0] if isinstance(n, ast.Assign) else n.target) == 'self._dict']
    # EVERY store (there is no fast path that keeps the caller's dictionary: raw_inputs is a snapshot of what was given, not a view on it)
    ok = bool(st_) and all((isinstance(n.value, ast.Call) and norm(n.value.func) in ('dict', 'copy.copy', 'copy.deepcopy')) or isinstance(n.value, (ast.Dict, ast.DictComp)) for n in st_)
    chk.ob('OWN-frozen', init, ok, 'the constructor copies its argument into a new dict (later changes of the source do not show)', kind='constructor-copies')
    pp = prog.func('ports.PortNamespace.pre_process')
    rets = [r for r in ast.walk(pp.node) if isinstance(r, ast.Return)]
    rv_ = rets[0].value if len(rets) == 1 else None
    # (the class named directly or through its module: ``AttributesFrozendict(...)`` / ``utils.AttributesFrozendict(...)``)
    k_ = prog.resolve_class(pp.module, rv_.func) if isinstance(rv_, ast.Call) else None
    ok = k_ is not None and k_.qualname == 'utils.AttributesFrozendict' and [norm(a) for a in rv_.args] == [pp.params[1]] and not rv_.keywords
    chk.ob('OWN-frozen', pp, ok, 'pre_process returns a frozen mapping', kind='returns-frozen')
    cfg = cfg_of(pp)
    ff = chk.ctx.facts.analyse(pp)
    # decision table over "the port is a namespace": what is stored under the name on each path (locals re-bound on the way are followed)
    from ..decisions import leaf as _lf, paths_under as _pu2, value_on_path as _vop2
    it_ = [m for m in cfg.nodes if m.kind == 'iter']
    ok = bool(it_)
    n_st = 0
    if ok:
        tgt_ = [norm(x) for x in it_[0].ast.target.elts] if isinstance(it_[0].ast.target, ast.Tuple) else ['name', 'port']
        k_ns, pol_ = _lf(ff, ast.parse(f'isinstance({tgt_[1]}, PortNamespace)', mode='eval').body)
        starts_ = [t for t, l in it_[0].succ if l not in ('exc', 'uncaught', 'handler') and it_[0].id in cfg.reachable([t], edge_ok=no_exc)]
        for is_ns in (True, False):
            for st_ in starts_:
                for path in _pu2(ff, {k_ns: is_ns == pol_}, start=st_, frozen=[tgt_[0], tgt_[1], pp.params[1]]):
                    cut = path[:path.index(it_[0])] if it_[0] in path else path
                    for i, m in enumerate(cut):
                        if m.kind == 'stmt' and isinstance(m.ast, ast.Assign) and isinstance(m.ast.targets[0], ast.Subscript) and norm(m.ast.targets[0].value) == pp.params[1]:
                            v_ = _vop2(cut, i, m.ast.value)
                            vals_ = [v_.body if is_ns else v_.orelse] if isinstance(v_, ast.IfExp) and 'PortNamespace' in norm(v_.test) else [v_]
                            for vv in vals_:
                                n_st += 1
                                pre = any(isinstance(c, ast.Call) and last_name(c) == 'pre_process' for c in ast.walk(vv))
                                ok &= (pre == is_ns)
        ok &= n_st >= 2
    # pre_process FILLS the mapping it is given: the spec's own default object must never be that mapping
    from ..decisions import paths_under as _pu, value_on_path as _vop
    recs = [m for m in cfg.nodes if any(isinstance(c, ast.Call) and last_name(c) == 'pre_process' for c in (walk_shallow(m.expr()) if m.expr() is not None else []))]
    leaked = []
    try:
        for path in _pu(ff, {}):
            for i, m in enumerate(path):
                if m in recs:
                    call = [c for c in walk_shallow(m.expr()) if isinstance(c, ast.Call) and last_name(c) == 'pre_process'][0]
                    arg = _vop(path, i, call.args[0]) if call.args else None
                    if arg is None:
                        continue
                    raw = [x for x in ast.walk(arg) if isinstance(x, ast.Attribute) and x.attr in ('default', '_default')]
                    copied = isinstance(arg, ast.Call) and (norm(arg.func) in ('dict', 'copy.copy', 'copy.deepcopy') or last_name(arg) in ('copy', 'deepcopy'))
                    called = isinstance(arg, ast.Call) and any(arg.func is r or any(r is y for y in ast.walk(arg.func)) for r in raw)   # default() -- a fresh value
                    not_mapping = any(t.kind == 'test' and 'Mapping' in norm(t.ast.test) and path[j + 1] in [s_ for s_, l_ in t.succ if l_ == 'false'] for j, t in enumerate(path[:i]) if j + 1 < len(path))
                    if raw and not copied and not called and not not_mapping:
                        leaked.append(norm(arg))
    except RuntimeError:
        leaked.append('<too many paths>')
    chk.ob('PROV-raw-inputs-untouched', pp, bool(recs) and not leaked, 'the mapping handed to the recursive pre_process (which fills it in) is never the declared default object of the spec'
           + (f' (handed over as it is on some path: {sorted(set(leaked))[:2]})' if leaked else ''), kind='default-not-filled-in-place')
    chk.ob('OWN-frozen', pp, ok, 'the value of every namespace port is itself pre-processed (frozen at every declared level); plain ports keep their value', kind='nested-frozen')


# ---------------------------------------------------------------------- 4. default overrides required
def required_override(chk: Check) -> None:
    prog = chk.prog
    ro = prog.func('ports.InputPort.required_override')
    ff = chk.ctx.facts.analyse(ro)
    rets = [n for n in ff.cfg.nodes if n.kind == 'return']
    dparam = ro.params[1] if len(ro.params) > 1 else 'default'
    ok = bool(rets)
    for r in rets:
        v = norm(r.ast.value)
        if v == 'False':
            continue
        if v == ro.params[0]:
            ok &= ('eq', dparam, '()') in ff.at(r) or ('same', *sorted(['UNSPECIFIED', dparam])) in ff.at(r)
        else:
            ok = False
    chk.ob('PROV-default-overrides-required', ro, ok, 'required_override keeps "required" only when no default is given, and is False whenever one is', kind='override')
    init = prog.func('ports.InputPort.__init__')
    sup = [c for c in calls_in_func(init, '__init__')]
    from ..rules import Resolver
    ok = len(sup) == 1 and any(k.arg == 'required' and Resolver(init).text(k.value) == 'InputPort.required_override(required, default)' for k in sup[0].keywords)
    chk.ob('PROV-default-overrides-required', init, ok, 'the port is constructed with the overridden flag', node=sup[0] if sup else None, kind='passed-to-port')
    stored = any(isinstance(n, ast.Assign) and norm(n.targets[0]) == 'self._default' and norm(n.value) == 'default' for n in ast.walk(init.node))
    chk.ob('PROV-default-overrides-required', init, stored, 'the default is stored', kind='default-stored')
    pv = prog.func('ports.Port.validate')
    ffv = chk.ctx.facts.analyse(pv)
    # decision table over (value given?, required?, type declared?, value of that type?): what Port.validate returns on every path
    from ..decisions import leaf, paths_under
    vp = pv.params[1]

    def key(txt: str):
        k, pol = leaf(ffv, ast.parse(txt, mode='eval').body)
        return k, pol

    def outcomes(assign: dict) -> set:
        val = {}
        for txt, truth in assign.items():
            k, pol = key(txt)
            val[k] = truth == pol
        got = set()
        for path in paths_under(ffv, val):
            if path[-1] is not ffv.cfg.exit:
                continue
            rets_ = [m for m in path if m.kind == 'return']
            v_ = rets_[-1].ast.value if rets_ else None
            got.add('none' if v_ is None or (isinstance(v_, ast.Constant) and v_.value is None) else ('error' if isinstance(v_, ast.Call) and last_name(v_) == 'PortValidationError' else norm(v_)))
        return got
    o1 = outcomes({f'{vp} is UNSPECIFIED': True, 'self._required': True})
    o2 = outcomes({f'{vp} is UNSPECIFIED': True, 'self._required': False})
    chk.ob('PROV-default-overrides-required', pv, o1 == {'error'} and o2 == {'none'}, f'a missing value is an error exactly for required ports (required: {sorted(o1)}; not required: {sorted(o2)})',
           kind='required-enforced')
    o3 = outcomes({f'{vp} is UNSPECIFIED': False, 'self._valid_type is None': False, f'isinstance({vp}, self._valid_type)': False})
    chk.ob('PROV-default-overrides-required', pv, o3 == {'error'}, f'a value of the wrong type is an error on every path ({sorted(o3)})', kind='type-enforced')


# ---------------------------------------------------------------------- defaults
def defaults(chk: Check) -> None:
    prog = chk.prog
    pp = prog.func('ports.PortNamespace.pre_process')
    ff = chk.ctx.facts.analyse(pp)
    cfg = ff.cfg
    # decision tables per iteration of the loop over the declared ports (locals re-bound on the way are followed along each path)
    from ..decisions import leaf as _lf3, paths_under as _pu3, value_on_path as _vop3
    vp = pp.params[1]
    it_ = [m for m in cfg.nodes if m.kind == 'iter']
    tgt_ = [norm(x) for x in it_[0].ast.target.elts] if it_ and isinstance(it_[0].ast.target, ast.Tuple) else ['name', 'port']
    starts_ = [t for t, l in it_[0].succ if l not in ('exc', 'uncaught', 'handler') and it_[0].id in cfg.reachable([t], edge_ok=no_exc)] if it_ else []
    K_SUP, K_NS, K_POP, K_DEF = f'{tgt_[0]} in {vp}', _lf3(ff, ast.parse(f'isinstance({tgt_[1]}, PortNamespace)', mode='eval').body)[0], f'{tgt_[1]}.populate_defaults', f'{tgt_[1]}.has_default()'
    FROZEN = [tgt_[0], tgt_[1], vp]

    def iterations(val):
        """(path up to the way back to the loop head, index of the store under the name or None)"""
        out_ = []
        for st_ in starts_:
            for path in _pu3(ff, val, start=st_, frozen=FROZEN):
                if path[-1] is cfg.raise_exit:
                    continue
                cut = path[:path.index(it_[0])] if it_[0] in path else path
                idx = [i for i, m in enumerate(cut) if m.kind == 'stmt' and isinstance(m.ast, ast.Assign) and isinstance(m.ast.targets[0], ast.Subscript) and norm(m.ast.targets[0].value) == vp]
                out_.append((cut, idx[-1] if idx else None))
        return out_
    ok = bool(starts_)
    n_c = {True: 0, False: 0}
    for cut, i in (iterations({K_SUP: False, K_DEF: True, K_POP: True}) if ok else []):
        if i is None:
            ok = False
            continue
        v = _vop3(cut, i, cut[i].ast.value, depth=6)
        called = any(isinstance(c, ast.Call) and not c.args and not c.keywords and norm(c.func).endswith('.default') for c in ast.walk(v))
        branch = None
        for j, m in enumerate(cut[:-1]):
            if m.kind == 'test' and norm(ff.subst_flags(m.ast.test, ff.at(m))).startswith('callable('):
                branch = next((l for t_, l in m.succ if t_ is cut[j + 1] and l in ('true', 'false')), branch)
        ife = [x for x in ast.walk(v) if isinstance(x, ast.IfExp) and norm(x.test).startswith('callable(')]
        if ife:
            # ``default() if callable(default) else default`` (possibly inside the copy / the recursive call): the conditional expression carries both cases
            called = all(any(isinstance(c, ast.Call) and not c.args and norm(c.func).endswith('.default') for c in ast.walk(x.body))
                         and not any(isinstance(c, ast.Call) and norm(c.func).endswith('.default') for c in ast.walk(x.orelse)) for x in ife)
            ok = ok and called
            n_c[True] += 1
            n_c[False] += 1
            continue
        if branch is None:
            ok = False
            continue
        n_c[branch == 'true'] += 1
        ok = ok and (called == (branch == 'true')) and '.default' in norm(v)
    ok = ok and n_c[True] > 0 and n_c[False] > 0
    chk.ob('PROV-defaults', pp, ok, 'a callable default is evaluated (once) when it is used', kind='callable-evaluated')
    use = [n for n in cfg.nodes if any(norm(c.func).endswith('.has_default') for c in _calls(n))]
    hd = [c for c in calls_in_func(pp) if norm(c.func).endswith('.has_default')]
    ok = bool(hd) and all(('F', f'name in {vp}') in fs for c in hd for _, fs in ff.site_facts(c))
    chk.ob('PROV-defaults', pp, ok, 'defaults are considered only for ports the caller did not supply', kind='only-when-missing')
    # not supplied, a namespace, populate_defaults off: nothing is stored for it on any path; supplied: it is processed like any other namespace
    left_out = iterations({K_SUP: False, K_NS: True, K_POP: False})
    given = iterations({K_SUP: True, K_NS: True, K_POP: False})
    ok = bool(left_out) and all(i is None for _, i in left_out) and bool(given) and all(i is not None for _, i in given)
    chk.ob('PROV-defaults', pp, ok, 'a namespace marked populate_defaults=False is left out only when the caller supplied nothing for it', kind='populate-defaults')
    loops = [l for l in ast.walk(pp.node) if isinstance(l, ast.For)]
    chk.ob('PROV-defaults', pp, len(loops) == 1 and norm(loops[0].iter) in ('self.items()', 'self._ports.items()', 'self.ports.items()'), 'every declared port is considered', kind='all-ports')
    chk.assumptions.append('which inputs are accepted and the exact content of `inputs` (the acceptance function over all specs) is not decided')


def typed_dynamic_leaf_checked(chk: Check, rule: str) -> None:
    """validate_dynamic_ports recurses into itself with each LEAF value as ``port_values``.  In a namespace with a
    valid_type, a value that is not a dict must never be accepted without its type having been tested -- whatever its
    truthiness (None, '', 0, [] are values too).  Decision table over (valid_type is None, value is a dict)."""
    from ..decisions import paths_under
    prog = chk.prog
    vd = prog.func('ports.PortNamespace.validate_dynamic_ports')
    ff = chk.ctx.facts.analyse(vd)
    pv = vd.params[1]
    type_tests = [n for n in ff.cfg.nodes if n.kind == 'test' and f'isinstance({pv}, self._valid_type)' in norm(ff.canon.expr(n.ast.test)).replace('self.valid_type', 'self._valid_type')]
    chk.ob(rule, vd, bool(type_tests), 'dynamic values are tested against the namespace\'s valid_type', kind='type-test-present')
    bad = []
    n = 0
    val = {'self._valid_type is None': False, 'self.valid_type is None': False, f'isinstance({pv}, dict)': False}
    for path in paths_under(ff, val):
        if path[-1] is not ff.cfg.exit:
            continue
        rets = [m for m in path if m.kind == 'return']
        if not rets:
            continue
        n += 1
        v = rets[-1].ast.value
        accepted = v is None or (isinstance(v, ast.Constant) and v.value is None)
        if accepted and not any(m in type_tests for m in path):
            bad.append([m.lineno for m in path if m.kind in ('test', 'return')])
    # ... and a dict is a NAMESPACE of values, never itself a value of the type: every accepting path recurses into its items
    rec = [m for m in ff.cfg.nodes if m.kind == 'iter' and pv in {x.id for x in ast.walk(m.ast.iter) if isinstance(x, ast.Name)}]
    rec_calls = [m for m in ff.cfg.nodes if any(isinstance(c, ast.Call) and last_name(c) == 'validate_dynamic_ports' for c in (walk_shallow(m.expr()) if m.expr() is not None else []))]
    bad_d, nd = [], 0
    vald = {'self._valid_type is None': False, 'self.valid_type is None': False, f'isinstance({pv}, dict)': True}
    for path in paths_under(ff, vald):
        if path[-1] is not ff.cfg.exit:
            continue
        rets = [m for m in path if m.kind == 'return']
        if not rets:
            continue
        nd += 1
        v = rets[-1].ast.value
        accepted = v is None or (isinstance(v, ast.Constant) and v.value is None)
        if accepted and not any(m in rec for m in path):
            bad_d.append([m.lineno for m in path if m.kind in ('test', 'return')])
    chk.ob(rule, vd, bool(rec) and bool(rec_calls) and not bad_d and nd >= 1, f'typed dynamic namespace, dict value: of {nd} accepting paths none returns without iterating over the items and validating each '
           '(a dict that "is of the valid type" would switch off the type check for everything below it)' + (f'; paths that skip it (test/return lines): {bad_d[:2]}' if bad_d else ''),
           kind='typed-dict-always-recursed')
    chk.ob(rule, vd, not bad and n >= 2, f'typed dynamic namespace, non-dict value: of {n} paths none accepts (returns None) without passing the isinstance(valid_type) test' +
           (f'; accepting paths that skip it (test/return lines): {bad[:2]}' if bad else ''), kind='typed-leaf-always-checked')


def namespace_value_is_mapping(chk: Check, rule: str) -> None:
    """The value given for a port namespace has to be a mapping (or nothing at all): whatever else it is -- '' / [] / 0 / False included -- every
    path through PortNamespace.validate must end in an error.  Decision table over ``isinstance(value, Mapping)`` = False and ``value is None`` = False
    (a test on the value's truthiness may NOT stand in for these: falsy is not "absent").  Shared with C12 (out('ns', 0))."""
    from ..decisions import leaf as _leaf, paths_under as _paths
    prog = chk.prog
    nv = prog.func('ports.PortNamespace.validate')
    ff = chk.ctx.facts.analyse(nv)
    pvn = nv.params[1]
    tests = [t for t in ff.cfg.nodes if t.kind == 'test' and 'Mapping' in norm(t.ast.test) and f'isinstance({pvn}' in norm(t.ast.test)]
    if not tests:
        chk.ob(rule, nv, False, 'PortNamespace.validate has no Mapping test on the value it is given', kind='namespace-value-is-mapping')
        return
    k_map, pol = _leaf(ff, tests[0].ast.test.operand if isinstance(tests[0].ast.test, ast.UnaryOp) else tests[0].ast.test)
    val = {k_map: False if pol else True, f'{pvn} is None': False}
    accepted = []
    for path in _paths(ff, val):
        if path[-1] is not ff.cfg.exit:
            continue
        rets = [m for m in path if m.kind == 'return']
        v_ = rets[-1].ast.value if rets else None
        if v_ is None or (isinstance(v_, ast.Constant) and v_.value is None) or not (isinstance(v_, ast.Call) and last_name(v_) == 'PortValidationError'):
            # did the path re-bind the value first?  then the Mapping test no longer speaks about what the caller passed
            reb = [m for m in path if m.kind == 'stmt' and isinstance(m.ast, ast.Assign) and norm(m.ast.targets[0]) == pvn]
            if reb:
                accepted.append(norm(reb[0].ast)[:60] + ' after ' + (norm([t for t in path[:path.index(reb[0])] if t.kind == 'test'][-1].ast.test)[:40] if [t for t in path[:path.index(reb[0])] if t.kind == 'test'] else 'nothing'))
    chk.ob(rule, nv, not accepted, 'a value that is neither a mapping nor None is an error on every path through PortNamespace.validate' + ('' if not accepted else
           f': it is replaced before the Mapping test is reached ({sorted(set(accepted))[:2]}) -- a falsy non-mapping (\'\', [], 0, False) passes as an empty namespace'),
           node=tests[0].ast, kind='namespace-value-is-mapping')
