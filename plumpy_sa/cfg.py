"""Statement-level control-flow graph for the statement kinds plumpy uses.

Built backwards (continuation style) so that ``finally`` bodies are duplicated per
exit kind (normal / exception / return / break / continue).  Duplicated nodes
share their ``ast`` object: obligations are keyed by AST node and a site is
discharged only if every copy is.

Node kinds
  entry, exit (normal return), raise (exception leaves the function)
  stmt      simple statement (Expr, Assign, AugAssign, AnnAssign, Pass, Assert, Delete, Import, Global, def ...)
  return    ``return e``            (evaluates e, then goes to the return target)
  raisestmt ``raise e``
  test      condition of if / while (edges 'true' / 'false')
  iter      ``for x in e`` head     (edges 'iter' / 'done')
  with      context-manager entry   (ast = the ast.withitem list holder: the With node)
  withexit  normal exit of a with body
  capture   exception swallowed by ``kiwipy.capture_exceptions(f)`` (sink expression in .info)
  except    entry of an ``except T as n`` handler (ast = ExceptHandler)
  dispatch  exception dispatch of a try statement (edges 'handler' / 'uncaught')

Edges carry a label: None (fallthrough), 'true', 'false', 'iter', 'done', 'exc', 'handler', 'uncaught'.
"""
from __future__ import annotations

import ast
from typing import Callable, Dict, Iterable, Iterator, List, Optional, Sequence, Set, Tuple

from .model import AnalysisError, FuncInfo, unparse, walk_shallow


class Node:
    __slots__ = ('id', 'kind', 'ast', 'succ', 'pred', 'info', 'copy_of')

    def __init__(self, nid: int, kind: str, node: Optional[ast.AST] = None, info=None):
        self.id = nid
        self.kind = kind
        self.ast = node
        self.succ: List[Tuple['Node', Optional[str]]] = []
        self.pred: List[Tuple['Node', Optional[str]]] = []
        self.info = info

    @property
    def lineno(self) -> int:
        return getattr(self.ast, 'lineno', 0) or 0

    def expr(self) -> Optional[ast.AST]:
        """The AST fragment *evaluated at this node* (for compound statements only the header)."""
        a = self.ast
        if self.kind == 'test':
            return a.test  # type: ignore[union-attr]
        if self.kind == 'iter':
            return a.iter  # type: ignore[union-attr]
        if self.kind == 'with':
            return ast.Tuple(elts=[i.context_expr for i in a.items], ctx=ast.Load())  # type: ignore[union-attr]
        if self.kind in ('return',):
            return a.value  # type: ignore[union-attr]
        if self.kind == 'raisestmt':
            return a.exc  # type: ignore[union-attr]
        if self.kind in ('stmt',):
            if isinstance(a, (ast.FunctionDef, ast.AsyncFunctionDef, ast.ClassDef)):
                return None
            return a
        return None

    def __repr__(self) -> str:
        txt = ''
        e = self.expr()
        if e is not None:
            txt = ' '.join(unparse(e).split())[:60]
        elif self.kind == 'except':
            txt = unparse(self.ast.type) if self.ast.type is not None else '<bare>'  # type: ignore[union-attr]
        return f'<{self.id}:{self.kind}@{self.lineno} {txt}>'


class _Ctx:
    __slots__ = ('brk', 'cont', 'ret', 'exc')

    def __init__(self, brk, cont, ret, exc):
        self.brk, self.cont, self.ret, self.exc = brk, cont, ret, exc

    def replace(self, **kw) -> '_Ctx':
        c = _Ctx(self.brk, self.cont, self.ret, self.exc)
        for k, v in kw.items():
            setattr(c, k, v)
        return c


_RAISING = (ast.Call, ast.Await, ast.Subscript, ast.BinOp, ast.Yield, ast.YieldFrom, ast.Starred)


def may_raise(node: Optional[ast.AST]) -> bool:
    if node is None:
        return False
    if isinstance(node, (ast.Assert, ast.Raise, ast.Delete, ast.Import, ast.ImportFrom)):
        return True
    for n in walk_shallow(node):
        if isinstance(n, _RAISING):
            return True
        if isinstance(n, ast.Attribute) and not (isinstance(n.value, ast.Name) and n.value.id in ('self', 'cls')):
            # attribute access on something other than self may raise AttributeError (LoadSaveContext.__getattr__ ...)
            if isinstance(n.ctx, ast.Load):
                return True
    return False


def is_capture_exceptions(item: ast.withitem) -> Optional[ast.expr]:
    e = item.context_expr
    # (with ignore=(...) some exceptions pass through: then it is not a container)
    if isinstance(e, ast.Call) and unparse(e.func).split('.')[-1] == 'capture_exceptions' and e.args and len(e.args) == 1 and not e.keywords:
        return e.args[0]
    return None


def is_catch_all(handler: ast.ExceptHandler) -> bool:
    """Catches every ``Exception`` (bare, Exception, BaseException)."""
    if handler.type is None:
        return True
    names = [handler.type] if not isinstance(handler.type, ast.Tuple) else handler.type.elts
    return any(unparse(n).split('.')[-1] in ('Exception', 'BaseException') for n in names)


class CFG:
    def __init__(self, func: FuncInfo):
        self.func = func
        self.nodes: List[Node] = []
        self.entry = self._new('entry')
        self.exit = self._new('exit')
        self.raise_exit = self._new('raise')
        ctx = _Ctx(None, None, self.exit, self.raise_exit)
        first = self._block(func.body, self.exit, ctx)
        self._edge(self.entry, first)
        self._prune()
        self._by_ast: Dict[int, List[Node]] = {}
        for n in self.nodes:
            if n.ast is not None:
                self._by_ast.setdefault(id(n.ast), []).append(n)

    # ------------------------------------------------------------------ construction
    def _new(self, kind: str, node: Optional[ast.AST] = None, info=None) -> Node:
        n = Node(len(self.nodes), kind, node, info)
        self.nodes.append(n)
        return n

    @staticmethod
    def _edge(a: Node, b: Node, label: Optional[str] = None) -> None:
        if (b, label) not in a.succ:
            a.succ.append((b, label))
            b.pred.append((a, label))

    def _block(self, stmts: Sequence[ast.stmt], nxt: Node, ctx: _Ctx) -> Node:
        cur = nxt
        for s in reversed(stmts):
            cur = self._stmt(s, cur, ctx)
        return cur

    def _simple(self, kind: str, s: ast.AST, nxt: Optional[Node], ctx: _Ctx) -> Node:
        n = self._new(kind, s)
        if nxt is not None:
            self._edge(n, nxt)
        if may_raise(s):
            self._edge(n, ctx.exc, 'exc')
        return n

    def _stmt(self, s: ast.stmt, nxt: Node, ctx: _Ctx) -> Node:
        if isinstance(s, (ast.Expr, ast.Assign, ast.AugAssign, ast.AnnAssign, ast.Pass, ast.Assert, ast.Delete,
                          ast.Import, ast.ImportFrom, ast.Global, ast.Nonlocal)):
            return self._simple('stmt', s, nxt, ctx)
        if isinstance(s, (ast.FunctionDef, ast.AsyncFunctionDef, ast.ClassDef)):
            n = self._new('stmt', s)
            self._edge(n, nxt)
            return n
        if isinstance(s, ast.Return):
            n = self._new('return', s)
            self._edge(n, ctx.ret)
            if may_raise(s.value):
                self._edge(n, ctx.exc, 'exc')
            return n
        if isinstance(s, ast.Raise):
            n = self._new('raisestmt', s)
            self._edge(n, ctx.exc, 'exc')
            return n
        if isinstance(s, ast.Break):
            if ctx.brk is None:
                raise AnalysisError(f'break outside loop in {self.func.qualname}')
            n = self._new('stmt', s)
            self._edge(n, ctx.brk)
            return n
        if isinstance(s, ast.Continue):
            if ctx.cont is None:
                raise AnalysisError(f'continue outside loop in {self.func.qualname}')
            n = self._new('stmt', s)
            self._edge(n, ctx.cont)
            return n
        if isinstance(s, ast.If):
            t = self._new('test', s)
            self._edge(t, self._block(s.body, nxt, ctx), 'true')
            self._edge(t, self._block(s.orelse, nxt, ctx), 'false')
            if may_raise(s.test):
                self._edge(t, ctx.exc, 'exc')
            return t
        if isinstance(s, ast.While):
            t = self._new('test', s)
            after = self._block(s.orelse, nxt, ctx)
            body = self._block(s.body, t, ctx.replace(brk=nxt, cont=t))
            const_true = isinstance(s.test, ast.Constant) and bool(s.test.value)
            self._edge(t, body, 'true')
            if not const_true:
                self._edge(t, after, 'false')
            if may_raise(s.test):
                self._edge(t, ctx.exc, 'exc')
            return t
        if isinstance(s, (ast.For, ast.AsyncFor)):
            h = self._new('iter', s)
            after = self._block(s.orelse, nxt, ctx)
            body = self._block(s.body, h, ctx.replace(brk=nxt, cont=h))
            self._edge(h, body, 'iter')
            self._edge(h, after, 'done')
            self._edge(h, ctx.exc, 'exc')
            return h
        if isinstance(s, (ast.With, ast.AsyncWith)):
            sink = None
            for it in s.items:
                sink = sink or is_capture_exceptions(it)
            wexit = self._new('withexit', s)
            self._edge(wexit, nxt)
            if sink is not None:
                cap = self._new('capture', s, info=sink)
                self._edge(cap, nxt)
                # capture_exceptions swallows Exception; BaseException (e.g. KeyboardInterrupt) still leaves
                body_ctx = ctx.replace(exc=cap)
            else:
                body_ctx = ctx
            body = self._block(s.body, wexit, body_ctx)
            w = self._new('with', s)
            self._edge(w, body)
            self._edge(w, ctx.exc, 'exc')
            return w
        if isinstance(s, ast.Try):
            return self._try(s, nxt, ctx)
        raise AnalysisError(f'unknown statement kind {type(s).__name__} at {self.func.where(s)}')

    def _try(self, s: ast.Try, nxt: Node, ctx: _Ctx) -> Node:
        if s.finalbody:
            memo: Dict[Tuple[str, int], Node] = {}

            def fin(kind: str, target: Optional[Node]) -> Optional[Node]:
                if target is None:
                    return None
                key = (kind, target.id)
                if key not in memo:
                    memo[key] = self._block(s.finalbody, target, ctx)
                return memo[key]

            inner = _Ctx(fin('break', ctx.brk), fin('continue', ctx.cont), fin('return', ctx.ret), fin('exc', ctx.exc))
            after = fin('normal', nxt)
        else:
            inner = ctx
            after = nxt
        assert after is not None
        if s.handlers:
            dispatch = self._new('dispatch', s)
            catch_all = False
            for h in s.handlers:
                hn = self._new('except', h)
                self._edge(hn, self._block(h.body, after, inner))
                self._edge(dispatch, hn, 'handler')
                if h.type is None or unparse(h.type).split('.')[-1] == 'BaseException':
                    catch_all = True
            if not catch_all:
                self._edge(dispatch, inner.exc, 'uncaught')
            body_ctx = inner.replace(exc=dispatch)
        else:
            body_ctx = inner
        els = self._block(s.orelse, after, inner)
        return self._block(s.body, els, body_ctx)

    def _prune(self) -> None:
        """Drop nodes unreachable from entry (e.g. unused finally copies)."""
        seen = set()
        stack = [self.entry]
        while stack:
            n = stack.pop()
            if n.id in seen:
                continue
            seen.add(n.id)
            stack.extend(t for t, _ in n.succ)
        keep = [n for n in self.nodes if n.id in seen or n in (self.exit, self.raise_exit)]
        for n in keep:
            n.pred = [(p, l) for p, l in n.pred if p.id in seen]
        self.nodes = keep

    # ------------------------------------------------------------------ queries
    def nodes_for(self, a: ast.AST) -> List[Node]:
        return list(self._by_ast.get(id(a), []))

    def nodes_containing(self, a: ast.AST) -> List[Node]:
        """CFG nodes whose evaluated expression contains AST node ``a``."""
        out = []
        for n in self.nodes:
            e = n.expr()
            if e is None:
                continue
            if e is a or any(x is a for x in walk_shallow(e)):
                out.append(n)
        return out

    def find(self, pred: Callable[[Node], bool]) -> List[Node]:
        return [n for n in self.nodes if pred(n)]

    def call_nodes(self, match: Callable[[ast.Call], bool]) -> List[Tuple[Node, ast.Call]]:
        out = []
        for n in self.nodes:
            e = n.expr()
            if e is None:
                continue
            for x in walk_shallow(e):
                if isinstance(x, ast.Call) and match(x):
                    out.append((n, x))
        return out

    def reachable(self, src: Iterable[Node], avoid: Optional[Callable[[Node], bool]] = None,
                  edge_ok: Optional[Callable[[Node, Node, Optional[str]], bool]] = None,
                  include_src: bool = False) -> Set[int]:
        """Ids of nodes reachable from ``src`` (src themselves excluded unless on a cycle or include_src)."""
        seen: Set[int] = set()
        stack = []
        for s in src:
            if include_src:
                if avoid is None or not avoid(s):
                    stack.append(s)
            else:
                stack.extend(t for t, l in s.succ if edge_ok is None or edge_ok(s, t, l))
        while stack:
            n = stack.pop()
            if n.id in seen:
                continue
            if avoid is not None and avoid(n):
                continue
            seen.add(n.id)
            for t, l in n.succ:
                if edge_ok is None or edge_ok(n, t, l):
                    stack.append(t)
        return seen

    def must_pass(self, src: Node, dst: Iterable[Node], through: Callable[[Node], bool],
                  edge_ok=None) -> bool:
        """Every path from ``src`` to any node of ``dst`` passes a node satisfying ``through``."""
        dst_ids = {d.id for d in dst}
        if through(src):
            return True
        r = self.reachable([src], avoid=through, edge_ok=edge_ok)
        return not (r & dst_ids)

    def dominators(self) -> Dict[int, Set[int]]:
        ids = [n.id for n in self.nodes]
        allset = set(ids)
        dom = {i: set(allset) for i in ids}
        dom[self.entry.id] = {self.entry.id}
        byid = {n.id: n for n in self.nodes}
        changed = True
        order = self.rpo()
        while changed:
            changed = False
            for n in order:
                if n is self.entry:
                    continue
                preds = [p for p, _ in n.pred]
                if not preds:
                    new = {n.id}
                else:
                    new = set.intersection(*[dom[p.id] for p in preds]) | {n.id}
                if new != dom[n.id]:
                    dom[n.id] = new
                    changed = True
        return dom

    def rpo(self) -> List[Node]:
        seen: Set[int] = set()
        out: List[Node] = []

        def dfs(n: Node) -> None:
            stack = [(n, iter(n.succ))]
            seen.add(n.id)
            while stack:
                node, it = stack[-1]
                for t, _ in it:
                    if t.id not in seen:
                        seen.add(t.id)
                        stack.append((t, iter(t.succ)))
                        break
                else:
                    out.append(node)
                    stack.pop()

        dfs(self.entry)
        for n in self.nodes:
            if n.id not in seen:
                dfs(n)
        out.reverse()
        return out

    def paths(self, src: Optional[Node] = None, limit: int = 5000, edge_ok=None,
              stop: Optional[Callable[[Node], bool]] = None) -> Iterator[List[Tuple[Node, Optional[str]]]]:
        """Acyclic-ish path enumeration: each node visited at most twice per path (loops 0/1 times).

        Yields lists of (node, label-of-edge-taken-out-of-it); the last element has label None.
        Raises AnalysisError above ``limit`` paths (callers fall back to dataflow summaries)."""
        src = src or self.entry
        count = 0
        stack: List[Tuple[Node, List[Tuple[Node, Optional[str]]], Dict[int, int]]] = [(src, [], {})]
        while stack:
            n, path, visits = stack.pop()
            v = visits.get(n.id, 0)
            if v >= 2:
                continue
            visits = dict(visits)
            visits[n.id] = v + 1
            succs = [(t, l) for t, l in n.succ if edge_ok is None or edge_ok(n, t, l)]
            if not succs or n in (self.exit, self.raise_exit) or (stop is not None and stop(n) and path):
                count += 1
                if count > limit:
                    raise AnalysisError(f'path explosion in {self.func.qualname} (> {limit})')
                yield path + [(n, None)]
                continue
            for t, l in succs:
                stack.append((t, path + [(n, l)], visits))

    def dump(self) -> str:
        lines = []
        for n in self.nodes:
            lines.append(f'{n!r} -> ' + ', '.join(f'{t.id}{"/" + l if l else ""}' for t, l in n.succ))
        return '\n'.join(lines)


def no_exc(_a: Node, _b: Node, label: Optional[str]) -> bool:
    """Edge filter: normal control flow only (no exception edges)."""
    return label not in ('exc', 'uncaught', 'handler')


_CACHE: Dict[int, CFG] = {}


def cfg_of(func: FuncInfo) -> CFG:
    c = _CACHE.get(id(func.node))
    if c is None:
        c = CFG(func)
        _CACHE[id(func.node)] = c
    return c
