"""Decision tables by finite abstract interpretation.

Some rules are about *which outcome a function produces under which condition* ("the chain goes on exactly when the
stepper is unfinished and the value is None or a ToContext").  Conditions can be spelled in many equivalent ways (one
compound test, nested ifs, early returns, De Morgan).  Instead of matching a spelling, the condition's *leaves* are given
truth values -- every valuation of a handful of leaves -- and the CFG is walked under each valuation: tests that are
boolean combinations of known leaves are decided, anything else is explored both ways.  The rule then states the
expected outcome per valuation.  This is a static enumeration of a finite space (2^k valuations x acyclic paths), not a
solver query and not an execution.
"""
from __future__ import annotations

import ast
import itertools
from typing import Callable, Dict, Iterable, Iterator, List, Optional, Sequence, Set, Tuple

from .cfg import Node
from .facts import FuncFacts
from .model import norm, walk_shallow


def leaf(ff: FuncFacts, e: ast.expr) -> Tuple[str, bool]:
    """(canonical leaf key, polarity): ``x is not None`` -> ('x is None', False); ``not f()`` -> ('f()', False)."""
    e = ff.canon.expr(e)
    if isinstance(e, ast.UnaryOp) and isinstance(e.op, ast.Not):
        k, pol = leaf(ff, e.operand)
        return k, not pol
    if isinstance(e, ast.Compare) and len(e.ops) == 1:
        op, l, r = e.ops[0], e.left, e.comparators[0]
        if isinstance(r, ast.Constant) and r.value is None and isinstance(op, (ast.Is, ast.IsNot, ast.Eq, ast.NotEq)):
            return f'{ff.canon.key(l)} is None', isinstance(op, (ast.Is, ast.Eq))
        if isinstance(op, (ast.Eq, ast.NotEq, ast.Is, ast.IsNot)):
            # a comparison with a constant of the program (enum member, module constant) is keyed by the constant's VALUE
            from .model import UNKNOWN
            prog, f_ = ff.eng.prog, ff.func
            for subj_, other in ((l, r), (r, l)):
                c = prog.fold(f_.module, other, f_.owner_class)
                if c is not UNKNOWN and not isinstance(c, (frozenset, tuple)) and prog.fold(f_.module, subj_, f_.owner_class) is UNKNOWN:
                    return f'{ff.canon.key(subj_)} == {c!r}', isinstance(op, (ast.Eq, ast.Is))
            a, b = sorted([ff.canon.key(l), ff.canon.key(r)])
            return f'{a} == {b}', isinstance(op, (ast.Eq, ast.Is))
        if isinstance(op, (ast.In, ast.NotIn)):
            return f'{ff.canon.key(l)} in {ff.canon.key(r)}', isinstance(op, ast.In)
    return norm(e), True


def evaluate(ff: FuncFacts, e: ast.expr, val: Dict[str, bool]) -> Optional[bool]:
    e2 = ff.canon.expr(e)
    if isinstance(e2, ast.UnaryOp) and isinstance(e2.op, ast.Not):
        v = evaluate(ff, e2.operand, val)
        return None if v is None else not v
    if isinstance(e2, ast.BoolOp):
        vals = [evaluate(ff, v, val) for v in e2.values]
        if isinstance(e2.op, ast.And):
            if any(v is False for v in vals):
                return False
            return True if all(v is True for v in vals) else None
        if any(v is True for v in vals):
            return True
        return False if all(v is False for v in vals) else None
    if isinstance(e2, ast.Constant):
        return bool(e2.value)
    k, pol = leaf(ff, e2)
    if k in val:
        return val[k] == pol
    # ``x`` (truthiness) is decided by ``x is None`` = True
    if f'{k} is None' in val and val[f'{k} is None']:
        return (not pol)
    return None


def _assigned(n: Node) -> Set[str]:
    out: Set[str] = set()
    a = n.ast
    if n.kind == 'stmt' and isinstance(a, (ast.Assign, ast.AugAssign, ast.AnnAssign, ast.Delete)):
        tg = a.targets if isinstance(a, (ast.Assign, ast.Delete)) else [a.target]
        for t in tg:
            for x in ast.walk(t):
                if isinstance(x, (ast.Name, ast.Attribute)) and isinstance(x.ctx, (ast.Store, ast.Del)):
                    out.add(norm(x))
    elif n.kind == 'iter':
        for x in ast.walk(a.target):  # type: ignore[union-attr]
            if isinstance(x, ast.Name):
                out.add(x.id)
    return out


def paths_under(ff: FuncFacts, val: Dict[str, bool], start: Optional[Node] = None, limit: int = 400, frozen: Iterable[str] = ()) -> List[List[Node]]:
    """Acyclic normal-control paths (exception edges ignored) from ``start`` consistent with the valuation.  A leaf whose
    subject is assigned on the path becomes unknown from there on (or known again when assigned None / a fresh object)."""
    cfg = ff.cfg
    start = start or cfg.entry
    out: List[List[Node]] = []
    stack: List[Tuple[Node, List[Node], Dict[str, bool], Dict[int, int]]] = [(start, [], dict(val), {})]
    while stack:
        n, path, v, seen = stack.pop()
        if seen.get(n.id, 0) >= 2:
            continue
        seen = dict(seen)
        seen[n.id] = seen.get(n.id, 0) + 1
        path = path + [n]
        if n is cfg.exit or n is cfg.raise_exit or not n.succ:
            out.append(path)
            if len(out) > limit:
                raise RuntimeError('too many paths')
            continue
        # effect of assignments on the valuation
        asg = _assigned(n) - set(frozen)
        if asg:
            v = dict(v)
            for k in list(v):
                if any(k == f'{t} is None' or k.startswith(t + ' ') or k.startswith(t + '.') or k == t or f'({t}' in k or f' {t})' in k or f'{t},' in k for t in asg):
                    del v[k]
            a = n.ast
            if isinstance(a, ast.AnnAssign) and a.value is not None:
                a = ast.Assign(targets=[a.target], value=a.value)
            # ``found, value = (True, x)``: each name of the pair takes what stands at its position (a flag returned next to a value, after inlining)
            if isinstance(a, ast.Assign) and len(a.targets) == 1 and isinstance(a.targets[0], (ast.Tuple, ast.List)) and isinstance(a.value, (ast.Tuple, ast.List)) \
                    and len(a.targets[0].elts) == len(a.value.elts) and all(isinstance(x, ast.Name) for x in a.targets[0].elts):
                for tn_, tv_ in zip(a.targets[0].elts, a.value.elts):
                    if isinstance(tv_, ast.Constant):
                        if tv_.value is None:
                            v[f'{tn_.id} is None'] = True
                            v[tn_.id] = False
                        else:
                            v[tn_.id] = bool(tv_.value)
                            v[f'{tn_.id} is None'] = False
            if isinstance(a, ast.Assign) and len(a.targets) == 1:
                t = norm(a.targets[0])
                val_ = a.value
                # truthiness of what is stored, where the display itself tells (locals only: an attribute may be changed by any call in between)
                if not isinstance(a.targets[0], ast.Name):
                    pass
                elif isinstance(val_, ast.JoinedStr) and any(isinstance(p_, ast.Constant) and p_.value for p_ in val_.values):
                    v[t] = True
                elif isinstance(val_, ast.Constant) and not isinstance(val_.value, type(None)):
                    v[t] = bool(val_.value)
                elif isinstance(val_, (ast.Tuple, ast.List, ast.Set)) and not any(isinstance(x, ast.Starred) for x in val_.elts):
                    v[t] = bool(val_.elts)
                elif isinstance(val_, ast.Dict) and all(k_ is not None for k_ in val_.keys):
                    v[t] = bool(val_.keys)
                # a local that takes the value of something whose None-ness is part of the valuation inherits it (``loader = ctx.loader`` ; ``if loader is None``)
                if isinstance(a.targets[0], ast.Name) and not isinstance(a.value, ast.Constant):
                    src_k = f'{ff.canon.key(a.value)} is None'
                    if src_k in v and src_k != f'{t} is None':
                        v[f'{t} is None'] = v[src_k]
                if isinstance(a.value, ast.Constant) and a.value.value is None:
                    v[f'{t} is None'] = True
                    if isinstance(a.targets[0], ast.Name):
                        v[t] = False
                elif isinstance(a.value, (ast.Tuple, ast.List, ast.Dict, ast.Set, ast.JoinedStr, ast.Lambda, ast.ListComp, ast.DictComp, ast.SetComp)) or (
                        isinstance(a.value, ast.Constant) and a.value.value is not None) or (
                        # a call yields a non-None value only when it is visibly a construction: ``ClassName(...)`` / a builtin container
                        isinstance(a.value, ast.Call) and (norm(a.value.func).split('.')[-1][:1].isupper() or norm(a.value.func) in ('dict', 'list', 'set', 'tuple', 'frozenset', 'str', 'int', 'bool'))) or (
                        isinstance(a.value, ast.Call) and _declared_non_none(ff, a.value)):
                    v[f'{t} is None'] = False
        succs = [(t, l) for t, l in n.succ if l not in ('exc', 'uncaught', 'handler')]
        if n.kind == 'test':
            test_e = FuncFacts.subst_flags(n.ast.test, ff.at(n))   # a local that stands for a predicate is tested as that predicate
            d = evaluate(ff, test_e, v)
            if d is None:
                d = _identity_on_path(path, test_e)
            if d is not None:
                succs = [(t, l) for t, l in succs if l == ('true' if d else 'false')]
            else:
                # learn the outcome of a single-leaf test along the branch taken
                k, pol = leaf(ff, test_e)
                new = []
                for t, l in succs:
                    v2 = v
                    if not isinstance(ff.canon.expr(test_e), ast.BoolOp):
                        v2 = dict(v)
                        v2[k] = (l == 'true') == pol
                    stack.append((t, path, v2, seen))
                continue
        if n.kind == 'raisestmt':
            out.append(path + [cfg.raise_exit])
            continue
        for t, l in succs:
            stack.append((t, path, v, seen))
    return out


def _declared_non_none(ff: FuncFacts, call: ast.Call) -> bool:
    """The call goes to ONE function of the program whose declared return type leaves no room for None (``-> kiwipy.Future``; the package is type-checked)."""
    try:
        t = ff.eng.calls.resolve_call(ff.func, call)
    except Exception:
        return False
    if t.uncontrolled or t.unknown or t.ctor is not None or len(t.funcs) != 1:
        return False
    r = getattr(t.funcs[0].node, 'returns', None)
    if r is None:
        return False
    txt = norm(r)
    if isinstance(r, ast.Constant) and isinstance(r.value, str):
        txt = r.value
    return not any(w in txt for w in ('None', 'Optional', 'Any', 'object')) and bool(txt) and not isinstance(t.funcs[0].node, ast.Lambda)


def _identity_on_path(path: List[Node], test: ast.expr) -> Optional[bool]:
    """``x is S`` / ``x is not S`` where, along THIS path, ``x`` was last bound to the very expression ``S`` (a module / class level marker: a plain name or attribute
    chain) -- or to a freshly built object, which is never an already existing marker.  Decides the sentinel tests an inlined "value or NOTHING" helper leaves behind."""
    neg = False
    if isinstance(test, ast.UnaryOp) and isinstance(test.op, ast.Not):
        test, neg = test.operand, True
    if not (isinstance(test, ast.Compare) and len(test.ops) == 1 and isinstance(test.ops[0], (ast.Is, ast.IsNot))):
        return None

    def chain(e) -> bool:
        return isinstance(e, ast.Name) or (isinstance(e, ast.Attribute) and chain(e.value))

    def marker_text(e) -> str:
        # (a class-level marker read through the instance, the class or ``cls``: one object)
        t = norm(e)
        for pre in ('self.', 'cls.', 'type(self).', 'self.__class__.'):
            if t.startswith(pre):
                return '<cls>.' + t[len(pre):]
        return t
    l = value_on_path(path, len(path) - 1, test.left)
    r = value_on_path(path, len(path) - 1, test.comparators[0])
    same: Optional[bool] = None
    if chain(l) and chain(r) and marker_text(l) == marker_text(r) and not (isinstance(l, ast.Name) and l.id == norm(test.left)):
        same = True
    elif (chain(r) and isinstance(l, (ast.Dict, ast.List, ast.Set, ast.Tuple, ast.DictComp, ast.ListComp)) and (not isinstance(l, ast.Tuple) or l.elts)) or \
            (chain(l) and isinstance(r, (ast.Dict, ast.List, ast.Set, ast.DictComp, ast.ListComp))):
        same = False
    if same is None:
        # a PRIVATE marker (``_NOTHING_TO_FILL_IN``-style name: leading underscore, upper case) is an object nobody outside can hold: whatever else the local was bound to
        # on this path -- a default, the result of calling it, a value the caller supplied -- is not it
        import re as _re
        for a_, b_ in ((l, r), (r, l)):
            nm_ = norm(b_).split('.')[-1]
            if chain(b_) and _re.fullmatch(r'_[A-Z][A-Z0-9_]*', nm_) and marker_text(b_) not in {marker_text(x) for x in ast.walk(a_) if isinstance(x, (ast.Name, ast.Attribute))} \
                    and not (isinstance(a_, ast.Name) and a_.id == norm(test.left)):
                same = False
    if same is None:
        return None
    res = same if isinstance(test.ops[0], ast.Is) else not same
    return (not res) if neg else res


def valuations(leaves: Sequence[str], consistent: Optional[Callable[[Dict[str, bool]], bool]] = None) -> Iterator[Dict[str, bool]]:
    for bits in itertools.product([False, True], repeat=len(leaves)):
        v = dict(zip(leaves, bits))
        if consistent is None or consistent(v):
            yield v


def value_on_path(path: Sequence[Node], upto: int, e: ast.AST, depth: int = 4) -> ast.AST:
    """``e`` with every local name replaced by the value last assigned to it on ``path[:upto]`` (plain ``name = value``
    assignments only; names bound otherwise -- parameters, loop targets, tuple unpacking, awaited values -- stay)."""
    import copy
    if depth == 0:
        return e

    def last_assignment(name: str, before: int):
        for i in range(before - 1, -1, -1):
            a = path[i].ast
            if path[i].kind == 'stmt' and isinstance(a, (ast.Assign, ast.AnnAssign)):
                tg = a.targets if isinstance(a, ast.Assign) else [a.target]
                if len(tg) == 1 and isinstance(tg[0], ast.Name) and tg[0].id == name and a.value is not None:
                    if any(isinstance(x, (ast.Await, ast.Yield, ast.YieldFrom)) for x in ast.walk(a.value)):
                        return None
                    return i, a.value
                # ``a, b = <tuple value>``: the element at the name's position, when the value resolves to a tuple display of that length
                if len(tg) == 1 and isinstance(tg[0], (ast.Tuple, ast.List)) and all(isinstance(x, ast.Name) for x in tg[0].elts) and name in [x.id for x in tg[0].elts] and a.value is not None:
                    v = value_on_path(path, i, a.value, depth - 1) if depth > 1 else a.value
                    pos = [x.id for x in tg[0].elts].index(name)
                    if isinstance(v, (ast.Tuple, ast.List)) and len(v.elts) == len(tg[0].elts) and not any(isinstance(x, ast.Starred) for x in v.elts):
                        return i, v.elts[pos]
                    return None
                if any(isinstance(x, ast.Name) and x.id == name and isinstance(x.ctx, ast.Store) for t in tg for x in ast.walk(t)):
                    return None
            elif path[i].kind in ('iter', 'except', 'with'):
                tgt = getattr(a, 'target', None) or getattr(a, 'name', None)
                names = {x.id for x in ast.walk(tgt) if isinstance(x, ast.Name)} if isinstance(tgt, ast.AST) else ({tgt} if isinstance(tgt, str) else set())
                if name in names:
                    return None
        return None

    class T(ast.NodeTransformer):
        def visit_Name(self, node: ast.Name):
            if isinstance(node.ctx, ast.Load):
                la = last_assignment(node.id, upto)
                if la is not None:
                    i, v = la
                    return value_on_path(path, i, copy.deepcopy(v), depth - 1)
            return node

        def visit_Lambda(self, node):
            return node

    return T().visit(copy.deepcopy(e))


def effective_call(path: Sequence[Node], idx: int, call: ast.Call) -> Tuple[str, List[str], Dict[str, str]]:
    """(callee text, positional argument texts, {keyword: text}) of ``call`` with locals replaced by the values they hold
    on this path and a ``**{...}`` display spelled out as keywords."""
    c2 = value_on_path(path, idx, call)
    kws: Dict[str, str] = {}
    for k in c2.keywords:
        if k.arg is None and isinstance(k.value, ast.Dict) and all(isinstance(x, ast.Constant) for x in k.value.keys):
            for kk, vv in zip(k.value.keys, k.value.values):
                kws[str(kk.value)] = norm(vv)
        else:
            kws[k.arg or '**'] = norm(k.value)
    return norm(c2.func), [norm(x) for x in c2.args], kws


def dispatch_table(ff: FuncFacts, subject: str, consts: Dict[str, object], site: Callable[[ast.Call], bool]):
    """Decision table of a dispatcher: for every constant the subject may equal (and for "none of them", key None) the
    outcome of every path -- ('call', callee, args, kws, node, call, is_returned) for the LAST call on the path satisfying
    ``site`` (evaluated after path substitution, so a handler picked into a local first is seen as the handler), ('raise', text)
    or ('return', text).  The same table comes out of an if/elif ladder, early returns, a handler variable or a helper returning
    (callee, kwargs)."""
    out: Dict[object, list] = {}
    for member in list(consts) + [None]:
        val = {f'{subject} == {consts[m]!r}': (m == member) for m in consts}
        res = []
        for path in paths_under(ff, val, frozen=[subject]):
            hits = []
            for i, m_ in enumerate(path):
                e = m_.expr()
                for c in ([x for x in walk_shallow(e) if isinstance(x, ast.Call)] if e is not None else []):
                    callee, args_, kws_ = effective_call(path, i, c)
                    probe = ast.Call(func=ast.parse(callee, mode='eval').body, args=c.args, keywords=c.keywords) if callee != norm(c.func) else c
                    if site(probe):
                        hits.append((i, c, callee, args_, kws_))
            if path[-1] is ff.cfg.raise_exit:
                rs = [m_ for m_ in path if m_.kind == 'raisestmt']
                res.append(('raise', norm(rs[-1].ast.exc) if rs and rs[-1].ast.exc is not None else ''))
            elif hits:
                i, c, callee, args_, kws_ = hits[-1]
                v = path[i].ast.value if path[i].kind == 'return' else None
                if isinstance(v, ast.Await):
                    v = v.value
                returned = v is c
                if not returned:
                    # ``result = call(...)`` ... ``return result``: what the path's return statement hands back, locals followed
                    rets_ = [(j, m_) for j, m_ in enumerate(path) if m_.kind == 'return' and m_.ast.value is not None and j > i]
                    if rets_:
                        j, m_ = rets_[-1]
                        rv = value_on_path(path, j, m_.ast.value)
                        if isinstance(rv, ast.Await):
                            rv = rv.value
                        returned = norm(rv) == norm(value_on_path(path, i, c))
                        # ``outcome = await call(...)`` ... ``return outcome`` (an awaited value is not followed by value_on_path): the local bound at the call site,
                        # not re-bound on the way, is what is returned
                        a_ = path[i].ast
                        if not returned and path[i].kind == 'stmt' and isinstance(a_, (ast.Assign, ast.AnnAssign)) and a_.value is not None:
                            tg_ = a_.targets[0] if isinstance(a_, ast.Assign) and len(a_.targets) == 1 else (a_.target if isinstance(a_, ast.AnnAssign) else None)
                            av_ = a_.value.value if isinstance(a_.value, ast.Await) else a_.value
                            if isinstance(tg_, ast.Name) and av_ is c and isinstance(m_.ast.value, ast.Name) and m_.ast.value.id == tg_.id \
                                    and not any(tg_.id in _assigned(x_) for x_ in path[i + 1:j]):
                                returned = True
                res.append(('call', callee, tuple(args_), tuple(sorted(kws_.items())), path[i], c, returned))
            else:
                rets = [m_ for m_ in path if m_.kind == 'return']
                res.append(('return', norm(rets[-1].ast.value) if rets and rets[-1].ast.value is not None else 'None'))
        out[member] = res
    return out
