"""Callee resolution, uncontrolled-call (U-site) classification, per-function effect summaries.

The resolution is by static receiver type where one can be derived (``self``, annotated
parameters and class attributes, constructor assignments, return annotations) and falls back to a
name-based lookup.  A call that cannot be resolved is classified conservatively for the question
asked: for "may another party run here?" (interleaving point) an unknown callee IS one.
"""
from __future__ import annotations

import ast
from typing import Dict, Iterable, Iterator, List, Optional, Sequence, Set, Tuple, Union

from .model import (AnalysisError, ClassInfo, FuncInfo, Module, Program, calls_in, is_self_attr, strip_cast, unparse,
                    walk_shallow, body_walk)

# Methods of builtin containers / futures / loggers / strings: calling them runs no plumpy or user code
# synchronously (asyncio futures schedule their callbacks with call_soon).
BENIGN_METHODS = {
    'get', 'pop', 'items', 'keys', 'values', 'append', 'extend', 'update', 'setdefault', 'copy', 'clear', 'add',
    'discard', 'remove', 'split', 'join', 'startswith', 'endswith', 'format', 'strip', 'done', 'cancel',
    'cancelled', 'result', 'exception', 'set_result', 'set_exception', 'add_done_callback',
    'remove_done_callback', 'debug', 'info', 'warning', 'error', 'log', 'with_traceback', 'appendleft', 'popleft',
    '__iter__', '__contains__', 'is_filtered', 'create_future', 'create_task', 'compile', 'fset', 'set', 'lower',
    'upper', 'encode', 'decode', 'index', 'count', 'insert', 'sort', 'reverse', 'from_string', 'removeprefix', 'removesuffix', 'partition', 'rpartition', 'rsplit',
    'lstrip', 'rstrip', 'replace', 'isidentifier', 'title', 'popitem', 'difference', 'union', 'intersection', 'issubset', 'issuperset',
    '__getattribute__', '__new__', '__get__', '__init__', 'represent_scalar', 'construct_scalar', 'represent_mapping',
    'construct_mapping',
}
# External callables that spin the event loop or run arbitrary code synchronously.
IP_EXTERNALS = {'run_until_complete', 'run_forever', 'asyncio.run', 'nest_asyncio.apply'}
BUILTINS = {
    'isinstance', 'issubclass', 'len', 'str', 'repr', 'dict', 'list', 'tuple', 'set', 'frozenset', 'bool', 'int',
    'float', 'getattr', 'setattr', 'hasattr', 'delattr', 'type', 'callable', 'iter', 'next', 'range', 'enumerate',
    'zip', 'any', 'all', 'sorted', 'reversed', 'hash', 'id', 'super', 'print', 'open', 'min', 'max', 'sum', 'map',
    'filter', 'vars', 'dir', 'object', 'cast', 'Exception', 'ValueError', 'TypeError', 'RuntimeError',
    'AttributeError', 'KeyError', 'NotImplementedError', 'AssertionError', 'property', 'staticmethod',
    'classmethod', 'format', 'bytes', 'abs', 'round', 'divmod', 'UserWarning', 'DeprecationWarning',
}
# Attributes that hold an object plumpy does not control (every call on them is a U-site).
UNCONTROLLED_ATTRS = {'_communicator'}
# Hooks of Process that are called directly (not through call_with_super_check) and are user-overridable.
DIRECT_HOOKS = {'on_output_emitting', 'on_output_emitted'}


class Target:
    """Outcome of resolving one call."""

    __slots__ = ('call', 'funcs', 'ctor', 'uncontrolled', 'ukind', 'ext', 'benign', 'unknown', 'name')

    def __init__(self, call: ast.Call):
        self.call = call
        self.funcs: List[FuncInfo] = []  # plumpy functions that may run synchronously
        self.ctor: Optional[ClassInfo] = None
        self.uncontrolled = False  # user / external code may run synchronously
        self.ukind: Optional[str] = None
        self.ext: Optional[str] = None
        self.benign = False
        self.unknown = False
        self.name = unparse(call.func)

    def __repr__(self) -> str:
        bits = []
        if self.funcs:
            bits.append('funcs=' + ','.join(f.qualname for f in self.funcs))
        if self.ctor:
            bits.append('ctor=' + self.ctor.qualname)
        if self.uncontrolled:
            bits.append('U:' + str(self.ukind))
        if self.ext:
            bits.append('ext=' + self.ext)
        if self.benign:
            bits.append('benign')
        if self.unknown:
            bits.append('UNKNOWN')
        return f'<Target {self.name} {" ".join(bits)}>'


class Calls:
    def __init__(self, prog: Program):
        self.prog = prog
        self._targets: Dict[int, Target] = {}
        self._summ: Optional[Dict[int, 'Summary']] = None
        self._state_base = prog.cls('process_states.State')
        self._busy: Set[Tuple[int, str]] = set()

    # ------------------------------------------------------------------ typing
    def ann_classes(self, m: Module, ann: Optional[ast.expr]) -> List[Union[ClassInfo, str]]:
        """Classes named by an annotation (Optional/Union/quotes stripped)."""
        if ann is None:
            return []
        if isinstance(ann, ast.Constant) and isinstance(ann.value, str):
            try:
                ann = ast.parse(ann.value, mode='eval').body
            except SyntaxError:
                return []
        if isinstance(ann, ast.Subscript):
            head = unparse(ann.value).split('.')[-1]
            if head in ('Optional', 'Union'):
                elts = ann.slice.elts if isinstance(ann.slice, ast.Tuple) else [ann.slice]
                out: List[Union[ClassInfo, str]] = []
                for e in elts:
                    out.extend(self.ann_classes(m, e))
                return out
            return []
        if isinstance(ann, ast.BinOp) and isinstance(ann.op, ast.BitOr):
            return self.ann_classes(m, ann.left) + self.ann_classes(m, ann.right)
        r = self.prog.resolve(m, ann)
        if isinstance(r, ClassInfo):
            return [r]
        if isinstance(r, tuple) and r[0] == 'ext':
            if r[1].startswith('typing.') or r[1].startswith('types.'):
                return []
            return [r[1]]
        return []

    def attr_types(self, cls: ClassInfo, attr: str) -> List[Union[ClassInfo, str]]:
        """Static type(s) of ``self.<attr>`` for an instance of ``cls``."""
        if attr == '_state' and any(c.qualname in ('base.state_machine.StateMachine',) for c in cls.mro_classes()):
            return [self._state_base]
        if attr in ('state_machine', 'process') and cls.is_subclass_of(self.prog.cls('base.state_machine.State')):
            return [self.prog.cls('processes.Process')]
        if attr == '_workchain':
            return [self.prog.cls('workchains.WorkChain')]
        if attr == '_process':
            return [self.prog.cls('processes.Process')]
        out: List[Union[ClassInfo, str]] = []
        for c in cls.mro_classes():
            if attr in c.annots:
                out.extend(self.ann_classes(c.module, c.annots[attr]))
            if out:
                return out
        # property?
        f = cls.lookup(attr)
        if f is not None and f.has_decorator('property'):
            return self.ann_classes(f.module, f.node.returns)
        # assignments ``self.attr = Ctor(...)`` / annotated ``self.attr: T = ...`` anywhere in the class hierarchy
        for c in cls.mro_classes():
            for meth in c.methods.values():
                for n in body_walk(meth):
                    if isinstance(n, ast.AnnAssign) and is_self_attr(n.target, attr):
                        out.extend(self.ann_classes(c.module, n.annotation))
                    elif isinstance(n, ast.Assign) and any(is_self_attr(t, attr) for t in n.targets):
                        v = strip_cast(n.value)
                        if isinstance(v, ast.Call):
                            r = self.prog.resolve(c.module, v.func)
                            if isinstance(r, ClassInfo):
                                out.append(r)
                            elif isinstance(r, tuple) and r[0] == 'ext':
                                out.append(r[1])
            if out:
                break
        # dedupe
        res: List[Union[ClassInfo, str]] = []
        for o in out:
            if o not in res:
                res.append(o)
        return res

    def local_types(self, func: FuncInfo, name: str) -> List[Union[ClassInfo, str]]:
        key = (id(func.node), name)
        if key in self._busy:
            return []
        self._busy.add(key)
        try:
            return self._local_types(func, name)
        finally:
            self._busy.discard(key)

    def _local_types(self, func: FuncInfo, name: str) -> List[Union[ClassInfo, str]]:
        f: Optional[FuncInfo] = func
        while f is not None:
            if not isinstance(f.node, ast.Lambda):
                a = f.node.args
                for arg in a.posonlyargs + a.args + a.kwonlyargs:
                    if arg.arg == name and arg.annotation is not None:
                        return self.ann_classes(f.module, arg.annotation)
            out: List[Union[ClassInfo, str]] = []
            for n in body_walk(f):
                if isinstance(n, ast.AnnAssign) and isinstance(n.target, ast.Name) and n.target.id == name:
                    out.extend(self.ann_classes(f.module, n.annotation))
                elif isinstance(n, ast.Assign) and any(isinstance(t, ast.Name) and t.id == name for t in n.targets):
                    out.extend(self.expr_types(f, n.value))
            if out:
                return out
            f = f.parent
        return []

    def expr_types(self, func: FuncInfo, e: ast.expr) -> List[Union[ClassInfo, str]]:
        m = func.module
        if isinstance(e, ast.Call) and unparse(e.func) in ('cast', 'typing.cast') and len(e.args) == 2:
            t = self.ann_classes(m, e.args[0])
            return t or self.expr_types(func, e.args[1])
        if isinstance(e, ast.Name):
            if e.id in ('self', 'cls'):
                oc = func.owner_class
                return [oc] if oc is not None else []
            return self.local_types(func, e.id)
        if isinstance(e, ast.Attribute):
            bases = self.expr_types(func, e.value)
            out: List[Union[ClassInfo, str]] = []
            for b in bases:
                if isinstance(b, ClassInfo):
                    out.extend(self.attr_types(b, e.attr))
            return out
        if isinstance(e, ast.Call):
            r = self.prog.resolve(m, e.func)
            if isinstance(r, ClassInfo):
                return [r]
            if isinstance(r, tuple) and r[0] == 'ext':
                return [r[1]]
            t = self.resolve_call(func, e)
            out2: List[Union[ClassInfo, str]] = []
            for f in t.funcs:
                out2.extend(self.ann_classes(f.module, getattr(f.node, 'returns', None)))
            return out2
        if isinstance(e, ast.Await):
            return []
        return []

    # ------------------------------------------------------------------ call resolution
    def resolve_call(self, func: FuncInfo, call: ast.Call) -> Target:
        t = self._targets.get(id(call))
        if t is None:
            t = self._resolve(func, call)
            self._targets[id(call)] = t
        return t

    def _is_local_callable_param(self, func: FuncInfo, name: str) -> bool:
        f: Optional[FuncInfo] = func
        while f is not None:
            a = f.node.args
            names = [x.arg for x in a.posonlyargs + a.args + a.kwonlyargs]
            if a.vararg:
                names.append(a.vararg.arg)
            if a.kwarg:
                names.append(a.kwarg.arg)
            if name in names:
                return True
            for n in body_walk(f):
                if isinstance(n, (ast.For, ast.AsyncFor)):
                    for x in ast.walk(n.target):
                        if isinstance(x, ast.Name) and x.id == name:
                            return True
                if isinstance(n, ast.comprehension):
                    for x in ast.walk(n.target):
                        if isinstance(x, ast.Name) and x.id == name:
                            return True
            f = f.parent
        return False

    def _find_nested(self, func: FuncInfo, name: str) -> Optional[FuncInfo]:
        f: Optional[FuncInfo] = func
        while f is not None:
            if name in f.nested:
                return f.nested[name]
            f = f.parent
        return None

    def _local_assigned_value(self, func: FuncInfo, name: str) -> List[ast.expr]:
        out = []
        f: Optional[FuncInfo] = func
        while f is not None:
            for n in body_walk(f):
                if isinstance(n, ast.Assign) and any(isinstance(t, ast.Name) and t.id == name for t in n.targets):
                    out.append(n.value)
            if out:
                return out
            f = f.parent
        return out

    def _resolve(self, func: FuncInfo, call: ast.Call) -> Target:
        # (``a = b; b = a`` -- e.g. after inlining a caching helper -- makes the local-callable chain circular)
        d = getattr(self, '_resolve_depth', 0)
        if d > 25:
            t = Target(call)
            t.unknown = True
            return t
        self._resolve_depth = d + 1
        try:
            return self._resolve_inner(func, call)
        finally:
            self._resolve_depth = d

    def _resolve_inner(self, func: FuncInfo, call: ast.Call) -> Target:
        t = Target(call)
        fn = call.func
        m = func.module
        prog = self.prog
        oc = func.owner_class

        # call_with_super_check(self.hook, ...): the hook chain runs, user overrides included
        if unparse(fn).split('.')[-1] == 'call_with_super_check' and call.args:
            target = call.args[0]
            t.uncontrolled = True
            t.ukind = 'hook'
            if isinstance(target, ast.Attribute):
                t.name = f'call_with_super_check({unparse(target)})'
                for c in self.expr_types(func, target.value):
                    if isinstance(c, ClassInfo):
                        for f in prog.overrides(c, target.attr):
                            if f not in t.funcs:
                                t.funcs.append(f)
                        # include every definition along the MRO: the super() chain runs them all
                        for k in c.mro_classes():
                            if target.attr in k.methods and k.methods[target.attr] not in t.funcs:
                                t.funcs.append(k.methods[target.attr])
            return t

        if isinstance(fn, ast.Call) and unparse(fn.func) == 'getattr':
            t.uncontrolled, t.ukind = True, 'getattr-callable'
            return t
        if isinstance(fn, ast.Call) and unparse(fn.func).split('.')[-1] == 'ensure_coroutine' and fn.args:
            # ensure_coroutine(X)(...) calls X
            st = self._resolve(func, ast.Call(func=fn.args[0], args=[], keywords=[]))
            st.call = call
            return st

        if isinstance(fn, ast.Name):
            name = fn.id
            nested = self._find_nested(func, name)
            if nested is not None:
                t.funcs = [nested]
                return t
            r = prog.resolve(m, fn)
            if isinstance(r, FuncInfo):
                t.funcs = [r]
                return t
            if isinstance(r, ClassInfo):
                t.ctor = r
                init = r.lookup('__init__')
                if init is not None:
                    t.funcs = [init]
                return t
            if isinstance(r, tuple) and r[0] == 'ext':
                t.ext = r[1]
                return t
            if name in BUILTINS:
                t.ext = 'builtins.' + name
                return t
            if isinstance(r, tuple) and r[0] == 'const':
                # module-level value (namedtuple class, compiled regex, ...): not a plumpy function
                t.ext = f'{r[1].short}.{name}'
                return t
            if name == 'cls' and oc is not None and func.params[:1] == ['cls']:
                t.ctor = oc
                init = oc.lookup('__init__')
                if init is not None:
                    t.funcs = [init]
                return t
            # local variable holding a callable
            vals = self._local_assigned_value(func, name)
            if vals and not self._is_local_callable_param(func, name):
                resolved_any = False
                for v in vals:
                    v = strip_cast(v)
                    if isinstance(v, ast.Call) and unparse(v.func) in ('functools.partial', 'partial') and v.args:
                        sub = ast.Call(func=v.args[0], args=[], keywords=[])
                        st = self._resolve(func, sub)
                        t.funcs.extend(x for x in st.funcs if x not in t.funcs)
                        t.uncontrolled |= st.uncontrolled
                        t.ukind = t.ukind or st.ukind
                        resolved_any = True
                    elif isinstance(v, (ast.Attribute, ast.Name)):
                        # ``default = port.default; default()``: the *value* of the attribute is called
                        if isinstance(v, ast.Attribute):
                            vt = self._resolve(func, ast.Call(func=v, args=[], keywords=[]))
                            if getattr(vt, 'benign', False) and not vt.uncontrolled:
                                # ``add = items.append; add(x)``: a cached bound method of a container operation is that operation
                                t.benign = True
                                resolved_any = True
                                continue
                            if vt.uncontrolled or any(f.has_decorator('property') for f in vt.funcs) or not (
                                    vt.funcs or vt.ctor or vt.ext):
                                t.uncontrolled, t.ukind = True, 'attr-callable'
                                resolved_any = True
                                continue
                        sub = ast.Call(func=v, args=[], keywords=[])
                        st = self._resolve(func, sub)
                        if st.funcs or st.ctor or st.ext or st.uncontrolled:
                            t.funcs.extend(x for x in st.funcs if x not in t.funcs)
                            t.ctor = t.ctor or st.ctor
                            t.ext = t.ext or st.ext
                            t.uncontrolled |= st.uncontrolled
                            t.ukind = t.ukind or st.ukind
                            resolved_any = True
                    elif isinstance(v, ast.Call):
                        # result of a call used as a callable (e.g. ensure_coroutine(callback), a class from a map)
                        if unparse(v.func).split('.')[-1] == 'ensure_coroutine' and v.args:
                            sub = ast.Call(func=v.args[0], args=[], keywords=[])
                            st = self._resolve(func, sub)
                            t.funcs.extend(x for x in st.funcs if x not in t.funcs)
                            t.uncontrolled |= st.uncontrolled or not st.funcs
                            t.ukind = t.ukind or st.ukind or 'param-callable'
                            resolved_any = True
                if resolved_any:
                    return t
                # e.g. ``cls = self.get_states_map()[label]; cls(self, **kw)``: a class taken from a table
                t.unknown = True
                t.ukind = 'local-callable'
                return t
            t.uncontrolled, t.ukind = True, 'param-callable'
            return t

        if isinstance(fn, ast.Attribute):
            meth = fn.attr
            recv = fn.value
            # super().m(...)
            if isinstance(recv, ast.Call) and unparse(recv.func) == 'super':
                if oc is not None:
                    # every class after ``oc`` in the MRO of oc *and of every subclass* may provide it
                    cands = []
                    for k in [oc] + prog.subclasses(oc):
                        f = k.lookup_after(oc, meth)
                        if f is not None and f not in cands:
                            cands.append(f)
                    t.funcs = cands
                    if not cands:
                        t.ext = 'super.' + meth  # object / external base
                return t
            if isinstance(recv, ast.Name) and recv.id in ('self', 'cls') and oc is not None:
                ca = oc.lookup_attr(meth)
                if ca is not None and oc.lookup(meth) is None:
                    rr = prog.resolve(ca[0].module, ca[1])
                    if isinstance(rr, ClassInfo):
                        t.ctor = rr
                        for k in [rr] + prog.subclasses(rr):
                            init = k.lookup('__init__')
                            if init is not None and init not in t.funcs:
                                t.funcs.append(init)
                        return t
            # receiver is an uncontrolled object
            if isinstance(recv, ast.Attribute) and recv.attr in UNCONTROLLED_ATTRS:
                t.uncontrolled, t.ukind = True, 'communicator'
                return t
            # module function / class method / constructor through dotted name
            r = prog.resolve(m, fn)
            if isinstance(r, FuncInfo):
                t.funcs = [r]
                # Class.method called on the class: classmethods/staticmethods; overrides possible via cls
                return t
            if isinstance(r, ClassInfo):
                t.ctor = r
                init = r.lookup('__init__')
                if init is not None:
                    t.funcs = [init]
                return t
            if isinstance(r, tuple) and r[0] == 'ext':
                t.ext = r[1]
                if meth in IP_EXTERNALS or r[1] in IP_EXTERNALS:
                    t.uncontrolled, t.ukind = True, 'loop-spin'
                return t
            # typed receiver
            types = self.expr_types(func, recv)
            plumpy_types = [c for c in types if isinstance(c, ClassInfo)]
            ext_types = [c for c in types if isinstance(c, str)]
            found = False
            for c in plumpy_types:
                cands = prog.overrides(c, meth)
                if cands:
                    found = True
                    for f in cands:
                        if f not in t.funcs:
                            t.funcs.append(f)
                elif self._attr_is_data(c, meth):
                    t.uncontrolled, t.ukind = True, 'attr-callable'
                    found = True
                elif c.external_bases():
                    t.ext = c.external_bases()[0] + '.' + meth
                    found = True
            if found:
                if meth in DIRECT_HOOKS:
                    t.uncontrolled, t.ukind = True, 'hook'
                if any(f.has_decorator('property') for f in t.funcs):
                    # calling the value of a property: a stored callable (e.g. self.validator(...))
                    t.funcs = []
                    t.uncontrolled, t.ukind = True, 'attr-callable'
                if any(x for x in ext_types if 'Communicator' in x):
                    t.uncontrolled, t.ukind = True, 'communicator'
                return t
            if ext_types:
                if any('Communicator' in x for x in ext_types):
                    t.uncontrolled, t.ukind = True, 'communicator'
                    return t
                t.ext = ext_types[0] + '.' + meth
                if meth in IP_EXTERNALS:
                    t.uncontrolled, t.ukind = True, 'loop-spin'
                return t
            # receiver is self but the name is not a method: a stored callable
            if isinstance(recv, ast.Name) and recv.id == 'self' and oc is not None:
                t.uncontrolled, t.ukind = True, 'attr-callable'
                return t
            if meth in IP_EXTERNALS:
                t.uncontrolled, t.ukind = True, 'loop-spin'
                return t
            if meth in BENIGN_METHODS:
                t.benign = True
                return t
            # name-based fallback
            cands = prog.methods_named(meth)
            if cands:
                if any(f.has_decorator('property') for f in cands):
                    t.uncontrolled, t.ukind = True, 'attr-callable'
                    return t
                t.funcs = cands
                t.unknown = True  # resolved by name only
                return t
            t.unknown = True
            return t

        if isinstance(fn, ast.Subscript):
            # table lookup then call: ``self.get_states_map()[label](self, ...)``
            t.unknown = True
            t.ukind = 'table-callable'
            return t
        t.unknown = True
        return t

    def _attr_is_data(self, c: ClassInfo, attr: str) -> bool:
        for k in c.mro_classes():
            if attr in k.attrs or attr in k.annots:
                return True
            for meth in k.methods.values():
                for n in body_walk(meth):
                    if isinstance(n, (ast.Assign, ast.AnnAssign)):
                        tg = n.targets if isinstance(n, ast.Assign) else [n.target]
                        if any(is_self_attr(x, attr) for x in tg):
                            return True
        return False

    # ------------------------------------------------------------------ state-class constructors
    def state_ctor_label(self, func: FuncInfo, call: ast.Call):
        """If ``call`` builds a state through create_state/_create_state_instance/get_state_class(L)(...) /
        get_states_map()[L](...), return the folded label (EnumMember) -- else None."""
        fn = call.func
        name = unparse(fn).split('.')[-1] if isinstance(fn, (ast.Attribute, ast.Name)) else ''
        if name in ('create_state', '_create_state_instance') and call.args:
            return self.prog.fold(func.module, call.args[0], func.owner_class)
        if isinstance(fn, ast.Call) and unparse(fn.func).split('.')[-1] == 'get_state_class' and fn.args:
            return self.prog.fold(func.module, fn.args[0], func.owner_class)
        if isinstance(fn, ast.Subscript) and 'get_states_map' in unparse(fn.value):
            return self.prog.fold(func.module, fn.slice, func.owner_class)
        if isinstance(fn, ast.Name):
            # state_cls = self.get_states_map()[L]; state_cls(...)
            for v in self._local_assigned_value(func, fn.id):
                if isinstance(v, ast.Subscript) and 'get_states_map' in unparse(v.value):
                    return self.prog.fold(func.module, v.slice, func.owner_class)
        return None

    # ------------------------------------------------------------------ summaries
    def summary(self, func: FuncInfo) -> 'Summary':
        if self._summ is None:
            self._compute_summaries()
        assert self._summ is not None
        s = self._summ.get(id(func.node))
        if s is None:
            s = self._summarise_one(func)
            self._summ[id(func.node)] = s
        return s

    def _summarise_one(self, f: FuncInfo) -> 'Summary':
        """Summary of a function that is not part of the program proper (an analysis view with helpers inlined)."""
        assert self._summ is not None
        s = Summary(f)
        self._summ[id(f.node)] = s   # (a recursive local function reaches itself: the partial summary ends the recursion)
        for n in body_walk(f):
            if isinstance(n, (ast.Await, ast.Yield, ast.YieldFrom, ast.AsyncFor, ast.AsyncWith)):
                s.own_ip = True
                s.ip_reasons.append(f'{type(n).__name__.lower()}@{getattr(n, "lineno", 0)}')
            if isinstance(n, (ast.Assign, ast.AugAssign, ast.AnnAssign, ast.Delete)):
                tg = n.targets if isinstance(n, (ast.Assign, ast.Delete)) else [n.target]
                for x in tg:
                    for y in ast.walk(x):
                        if isinstance(y, ast.Attribute) and isinstance(y.ctx, (ast.Store, ast.Del)):
                            s.writes.add(y.attr)
        for call, t in self.func_calls(f):
            if t.uncontrolled:
                s.own_ip = True
                s.ip_reasons.append(f'U:{t.ukind}:{t.name}@{call.lineno}')
                s.usites.append((call, t))
            if t.unknown and not t.funcs and self.state_ctor_label(f, call) is None and t.ukind not in ('table-callable', 'local-callable'):
                s.own_ip = True
            for g in t.funcs:
                if g not in s.callees:
                    s.callees.append(g)
                if not g.is_async:
                    gs = self.summary(g)
                    s.inherited_ip |= gs.ip
                    s.inherited_writes |= gs.all_writes
        return s

    def func_calls(self, func: FuncInfo) -> List[Tuple[ast.Call, Target]]:
        out = []
        for s in func.body:
            for n in walk_shallow_stmts(s):
                if isinstance(n, ast.Call):
                    out.append((n, self.resolve_call(func, n)))
        return out

    def _compute_summaries(self) -> None:
        funcs = list(self.prog.all_funcs())
        summ: Dict[int, Summary] = {}
        state_inits = None
        for f in funcs:
            s = Summary(f)
            for n in body_walk(f):
                if isinstance(n, (ast.Await, ast.Yield, ast.YieldFrom, ast.AsyncFor, ast.AsyncWith)):
                    s.own_ip = True
                    s.ip_reasons.append(f'{type(n).__name__.lower()}@{getattr(n, "lineno", 0)}')
                if isinstance(n, (ast.Assign, ast.AugAssign, ast.AnnAssign, ast.Delete)):
                    tg = n.targets if isinstance(n, (ast.Assign, ast.Delete)) else [n.target]
                    for x in tg:
                        for y in ast.walk(x):
                            if isinstance(y, ast.Attribute) and isinstance(y.ctx, (ast.Store, ast.Del)):
                                s.writes.add(y.attr)
                if isinstance(n, ast.Call) and unparse(n.func) == 'setattr' and len(n.args) >= 2:
                    a = n.args[1]
                    s.writes.add(a.value if isinstance(a, ast.Constant) else '*')
            for call, t in self.func_calls(f):
                if t.uncontrolled:
                    s.own_ip = True
                    s.ip_reasons.append(f'U:{t.ukind}:{t.name}@{call.lineno}')
                    s.usites.append((call, t))
                if t.unknown and not t.funcs:
                    lbl = self.state_ctor_label(f, call)
                    if lbl is not None or t.ukind in ('table-callable', 'local-callable'):
                        # building a state object from the states map: runs the state classes' __init__
                        if state_inits is None:
                            state_inits = [c.methods['__init__'] for c in self.prog.all_classes()
                                           if c.is_subclass_of(self.prog.cls('base.state_machine.State'))
                                           and '__init__' in c.methods]
                        s.callees.extend(x for x in state_inits if x not in s.callees)
                    else:
                        s.own_ip = True
                        s.ip_reasons.append(f'unresolved:{t.name}@{call.lineno}')
                for g in t.funcs:
                    if g not in s.callees:
                        s.callees.append(g)
            summ[id(f.node)] = s
        # an async function called without await only creates a coroutine object: its body does not run
        changed = True
        while changed:
            changed = False
            for s in summ.values():
                for g in s.callees:
                    gs = summ[id(g.node)]
                    if g.is_async:
                        continue
                    if gs.ip and not s.ip:
                        s.inherited_ip = True
                        s.ip_reasons.append(f'via {g.qualname}')
                        changed = True
                    new = gs.all_writes - s.all_writes
                    if new:
                        s.inherited_writes |= new
                        changed = True
        self._summ = summ


def walk_shallow_stmts(stmt: ast.AST) -> Iterator[ast.AST]:
    if isinstance(stmt, (ast.FunctionDef, ast.AsyncFunctionDef, ast.ClassDef)):
        # decorators / defaults are evaluated, the body is not
        for d in getattr(stmt, 'decorator_list', []):
            yield from walk_shallow(d)
        return
    stack = [stmt]
    while stack:
        n = stack.pop()
        yield n
        for c in ast.iter_child_nodes(n):
            if isinstance(c, (ast.FunctionDef, ast.AsyncFunctionDef, ast.ClassDef, ast.Lambda)):
                continue
            stack.append(c)


class Summary:
    def __init__(self, func: FuncInfo):
        self.func = func
        self.own_ip = False
        self.inherited_ip = False
        self.ip_reasons: List[str] = []
        self.writes: Set[str] = set()
        self.inherited_writes: Set[str] = set()
        self.callees: List[FuncInfo] = []
        self.usites: List[Tuple[ast.Call, Target]] = []

    @property
    def ip(self) -> bool:
        return self.own_ip or self.inherited_ip

    @property
    def all_writes(self) -> Set[str]:
        return self.writes | self.inherited_writes
