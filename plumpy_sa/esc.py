"""ESC: inter-procedural exception containment (DESIGN 2.4).

Question answered: an arbitrary ``Exception`` (not an Interruption) is raised by uncontrolled code at a U-site; following
the synchronous call chains upwards, what catches it first -- and can it reach a *task boundary* (a coroutine or callback
that plumpy hands to the event loop) uncaught?
"""
from __future__ import annotations

import ast
from typing import Dict, Iterator, List, Optional, Set, Tuple

from .calls import Calls, Target, walk_shallow_stmts
from .cfg import is_capture_exceptions, is_catch_all
from .model import AnalysisError, ClassInfo, FuncInfo, Program, norm, strip_cast, unparse, walk_shallow
from .report import Ctx
from .rules import calls_in_func, last_name, name_refs_as_value

LOOP_SPAWNERS = {'create_task', 'ensure_future', 'run_coroutine_threadsafe'}
# classes whose public methods users call directly: an exception leaving one of them reaches user code, by design
API_HIERARCHIES = {'processes.Process', 'base.state_machine.StateMachine'}
API_CLASSES = {'ports.Port', 'ports.InputPort', 'ports.PortNamespace', 'process_spec.ProcessSpec', 'persistence.Savable', 'persistence.Bundle'}


class Container:
    def __init__(self, func: FuncInfo, kind: str, node: ast.AST, sink: str):
        self.func, self.kind, self.node, self.sink = func, kind, node, sink

    def __repr__(self) -> str:
        return f'{self.func.short}:{self.kind}->{self.sink}'


class Outcome:
    def __init__(self, kind: str, path: List[Tuple[FuncInfo, ast.AST]], container: Optional[Container] = None, root: str = ''):
        self.kind = kind  # 'contained' | 'root'
        self.path = path
        self.container = container
        self.root = root  # public-entry | task | done-callback | external-callback | orphan

    def chain(self) -> str:
        return ' <- '.join(f.short for f, _ in self.path)


class Esc:
    def __init__(self, ctx: Ctx):
        self.ctx = ctx
        self.prog = ctx.prog
        self.calls = ctx.calls
        self._parents: Dict[int, Dict[int, ast.AST]] = {}
        self._callers: Optional[Dict[int, List[Tuple[FuncInfo, ast.AST, str]]]] = None
        self._roots: Dict[int, str] = {}
        self._stop = None
        self._use_containers = True

    # ------------------------------------------------------------------ containment inside one function
    def parents(self, f: FuncInfo) -> Dict[int, ast.AST]:
        pm = self._parents.get(id(f.node))
        if pm is None:
            pm = {}
            for n in ast.walk(f.node):
                for c in ast.iter_child_nodes(n):
                    pm[id(c)] = n
            self._parents[id(f.node)] = pm
        return pm

    def container_of(self, f: FuncInfo, node: ast.AST) -> Optional[Container]:
        pm = self.parents(f)
        cur = node
        while cur is not f.node:
            par = pm.get(id(cur))
            if par is None:
                break
            if isinstance(par, ast.Try) and any(cur is s for s in par.body) and getattr(self, '_exc_class', None) is not None:
                # the exception travelling is of a KNOWN class of the program: the first handler whose type it is an instance of takes it
                hit = None
                for h in par.handlers:
                    if self._handler_takes(f, h, self._exc_class):
                        hit = h
                        break
                if hit is not None:
                    if not self._just_reraises(hit):
                        sink = self.sink_of_handler(f, hit)
                        if sink != 'converted-and-reraised':
                            return Container(f, 'except', hit, sink if is_catch_all(hit) else f'typed-handler:{sink}')
            elif isinstance(par, ast.Try) and any(cur is s for s in par.body):
                for h in par.handlers:
                    if is_catch_all(h):
                        if self._just_reraises(h):
                            break  # transparent
                        sink = self.sink_of_handler(f, h)
                        if sink == 'converted-and-reraised':
                            break  # the handler raises a new exception: it keeps travelling outwards from this try
                        return Container(f, 'except', h, sink)
                    # typed handlers are transparent for an arbitrary user exception
            elif isinstance(par, (ast.With, ast.AsyncWith)) and any(cur is s for s in par.body):
                for it in par.items:
                    s = is_capture_exceptions(it)
                    if s is not None:
                        return Container(f, 'capture', par, f'future:{norm(s)}')
            elif isinstance(par, (ast.FunctionDef, ast.AsyncFunctionDef, ast.Lambda)) and par is not f.node:
                break
            cur = par
        return None

    def _handler_takes(self, f: FuncInfo, h: ast.ExceptHandler, exc: ClassInfo) -> bool:
        if h.type is None:
            return True
        ext = {b.split('.')[-1] for b in exc.mro() if isinstance(b, str)}
        for t in (h.type.elts if isinstance(h.type, ast.Tuple) else [h.type]):
            k = self.prog.resolve_class(f.module, t)
            if k is not None:
                if exc is k or exc.is_subclass_of(k):
                    return True
            elif norm(t).split('.')[-1] in ext:
                return True
        return False

    @staticmethod
    def _just_reraises(h: ast.ExceptHandler) -> bool:
        """The handler re-raises whatever it caught on every path (possibly after some bookkeeping)."""
        body = [s for s in h.body if not (isinstance(s, ast.Expr) and isinstance(s.value, ast.Constant))]
        if not body or not (isinstance(body[-1], ast.Raise) and body[-1].exc is None):
            return False
        return not any(isinstance(x, (ast.Return, ast.Continue, ast.Break)) for s in body for x in ast.walk(s))

    def sink_of_handler(self, f: FuncInfo, h: ast.ExceptHandler) -> str:
        sink = self._sink_of_handler(f, h)
        if sink in ('swallowed', 'logged'):
            # what the handler does may sit in a private helper (``next_state = self._excepted_outcome(*sys.exc_info()[1:])``): the same handler in the
            # function's view (helpers inlined) decides
            try:
                v = self.prog.view(f)
            except Exception:
                v = f
            if v is not f:
                same = [x for x in ast.walk(v.node) if isinstance(x, ast.ExceptHandler) and (x.lineno, x.col_offset) == (h.lineno, h.col_offset) and norm(x.type) == norm(h.type)]
                if len(same) == 1:
                    seen = self._sink_of_handler(v, same[0])
                    if seen not in ('swallowed', 'logged'):
                        return seen
        return sink

    def _sink_of_handler(self, f: FuncInfo, h: ast.ExceptHandler) -> str:
        names = []
        # a bound method cached in a local (``log_error = _LOGGER.error``) is that method
        cached = {t.id: a.value.attr for a in ast.walk(f.node) if isinstance(a, ast.Assign) and len(a.targets) == 1 and isinstance(a.value, ast.Attribute) for t in a.targets if isinstance(t, ast.Name)}
        for s in h.body:
            for n in ast.walk(s):
                if isinstance(n, ast.Call):
                    names.append(cached.get(n.func.id, last_name(n)) if isinstance(n.func, ast.Name) else last_name(n))
                    lbl = self.calls.state_ctor_label(f, n)
                    if lbl is not None and repr(lbl) == 'ProcessState.EXCEPTED':
                        return 'excepted-state'
        if 'callback_excepted' in names:
            return 'callback_excepted'
        if 'transition_failed' in names:
            return 'transition_failed'
        if h.body and isinstance(h.body[-1], ast.Raise) and h.body[-1].exc is not None:
            return 'converted-and-reraised'
        if any(n in ('exception', 'error', 'warning', 'critical') for n in names):
            return 'logged'
        return 'swallowed'

    # ------------------------------------------------------------------ reverse call graph (with runner tables)
    def callers(self, f: FuncInfo) -> List[Tuple[FuncInfo, ast.AST, str]]:
        if self._callers is None:
            self._build()
        assert self._callers is not None
        f = f.origin or f  # an analysis view is called by whoever calls the function it was made from
        return self._callers.get(id(f.node), [])

    def root_kind(self, f: FuncInfo) -> str:
        if self._callers is None:
            self._build()
        f = f.origin or f
        return self._roots.get(id(f.node), '')

    def _add(self, callee: FuncInfo, caller: FuncInfo, site: ast.AST, via: str) -> None:
        assert self._callers is not None
        lst = self._callers.setdefault(id(callee.node), [])
        if not any(c is caller and s is site for c, s, _ in lst):
            lst.append((caller, site, via))

    def _build(self) -> None:
        self._callers = {}
        prog, calls = self.prog, self.calls
        awaited: Set[int] = set()
        for f in prog.all_funcs():
            for s in f.body:
                for n in walk_shallow_stmts(s):
                    if isinstance(n, ast.Await) and isinstance(n.value, ast.Call):
                        awaited.add(id(n.value))
        spawned: Dict[int, str] = {}
        for f in prog.all_funcs():
            for c, t in calls.func_calls(f):
                name = last_name(c)
                # coroutine handed to the loop:  loop.create_task(x.run()) / ensure_future(proc.step_until_terminated())
                if name in LOOP_SPAWNERS and c.args and isinstance(c.args[0], ast.Call):
                    inner = calls.resolve_call(f, c.args[0])
                    for g in inner.funcs:
                        if g.is_async:
                            self._roots[id(g.node)] = 'task'
                            spawned[id(c.args[0])] = 'task'
                if name == 'add_done_callback' and c.args:
                    tgt = self._resolve_ref(f, c.args[0])
                    for g in tgt:
                        self._roots[id(g.node)] = 'done-callback'
                for g in t.funcs:
                    if g.is_async and id(c) not in awaited:
                        continue  # only creates the coroutine object
                    self._add(g, f, c, 'call')
        # runner tables: values that are called later, synchronously, at a known site
        fire = prog.func('base.state_machine.StateMachine._fire_state_event')
        fire_site = [c for c, t in calls.func_calls(fire) if t.uncontrolled and t.ukind == 'param-callable']
        seh = prog.func('processes.Process._setup_event_hooks')
        for lam in seh.lambdas:
            if fire_site:
                self._add(lam, fire, fire_site[0], 'state-event callback')
        run = prog.func('futures.CancellableAction.run')
        act_site = [c for c in calls_in_func(run) if norm(c.func) == 'self._action']
        cb_run = prog.func('events.ProcessCallback.run')
        cb_site = [c for c in calls_in_func(cb_run) if norm(c.func) == 'self._callback']
        rpc = prog.try_func('processes.Process._schedule_rpc.run_callback')
        rpc_site = [c for c in calls_in_func(rpc) if isinstance(c.func, ast.Name) and c.func.id == 'callback'] if rpc else []
        on_close = prog.func('processes.Process.on_close')
        cl_site = [c for c, t in calls.func_calls(on_close) if t.uncontrolled and t.ukind == 'param-callable']
        rt = prog.func('processes.Process._run_task')
        rt_site = [c for c, t in calls.func_calls(rt) if t.uncontrolled]
        rt_transparent = bool(rt_site) and self.container_of(rt, rt_site[0]) is None
        for f in prog.all_funcs():
            for c in calls_in_func(f, '_run_task'):
                if c.args and rt_site:
                    for g in self._resolve_ref(f, c.args[0]):
                        if rt_transparent and id(c) in awaited:
                            # context-sensitive: what X raises inside ``await self._run_task(X)`` surfaces at this very await
                            scoped = self.in_process_scope(rt, rt_site[0])
                            self._add(g, f, c, 'process task (awaited here)' + (' [scoped]' if scoped else ''))
                        else:
                            self._add(g, rt, rt_site[0], 'process task')
        rexec = prog.func('process_states.Running.execute')
        runfn_site = [c for c in calls_in_func(rexec) if norm(c.func) == 'self.run_fn']
        for f in prog.all_funcs():
            for c in calls_in_func(f):
                nm = last_name(c)
                args = list(c.args) + [k.value for k in c.keywords]
                # continuations: a method handed to a command or to a state constructor is later run as the step function
                if runfn_site and (nm in ('Continue', 'Wait') or self.calls.state_ctor_label(f, c) is not None):
                    for a in args:
                        for g in self._resolve_ref(f, a):
                            self._add(g, rexec, runfn_site[0], 'step function')
                if nm == 'CancellableAction' and act_site:
                    for g in self._resolve_ref(f, c.args[0]) if c.args else []:
                        self._add(g, run, act_site[0], 'interrupt action')
                elif nm == 'ProcessCallback' and cb_site and len(c.args) >= 2:
                    for g in self._resolve_ref(f, c.args[1]):
                        self._add(g, cb_run, cb_site[0], 'scheduled callback')
                elif nm == '_schedule_rpc' and rpc_site and c.args:
                    for g in self._resolve_ref(f, c.args[0]):
                        self._add(g, rpc, rpc_site[0], 'rpc callback')
                elif nm == 'add_cleanup' and cl_site and c.args:
                    for g in self._resolve_ref(f, c.args[0]):
                        self._add(g, on_close, cl_site[0], 'cleanup')
                elif nm in ('add_rpc_subscriber', 'add_broadcast_subscriber', 'add_task_subscriber', 'BroadcastFilter'):
                    for a in args:
                        for g in self._resolve_ref(f, a):
                            self._roots.setdefault(id(g.node), 'external-callback')

    def _resolve_ref(self, f: FuncInfo, e: ast.expr) -> List[FuncInfo]:
        """Functions a value expression may denote: self.m, nested name, partial(x, ...), local holding one of these."""
        e = strip_cast(e)
        if isinstance(e, ast.Call) and norm(e.func) in ('functools.partial', 'partial') and e.args:
            return self._resolve_ref(f, e.args[0])
        if isinstance(e, ast.Name):
            nested = self.calls._find_nested(f, e.id)
            if nested is not None:
                return [nested]
            out: List[FuncInfo] = []
            for v in self.calls._local_assigned_value(f, e.id):
                out.extend(self._resolve_ref(f, v))
            return out
        if isinstance(e, ast.Attribute):
            t = self.calls.resolve_call(f, ast.Call(func=e, args=[], keywords=[]))
            return [g for g in t.funcs if not t.unknown]
        if isinstance(e, ast.Lambda):
            return [g for g in f.lambdas if g.node is e]
        return []

    # ------------------------------------------------------------------ tracing
    def trace_class(self, f: FuncInfo, node: ast.AST, exc: ClassInfo, max_depth: int = 14) -> List[Outcome]:
        """``trace`` for an exception of the known class ``exc`` (typed handlers that take it contain it; ``except Exception`` does not take a BaseException)."""
        self._exc_class = exc
        try:
            return self.trace(f, node, max_depth)
        finally:
            self._exc_class = None

    def trace(self, f: FuncInfo, node: ast.AST, max_depth: int = 14, stop=None, containers: bool = True) -> List[Outcome]:
        """Follow the synchronous call chains upwards from ``node`` in ``f``.  ``stop(f, node, via)`` may end a chain with
        outcome kind 'stopped' (used by the scope-reachability rule); ``containers=False`` ignores exception handlers."""
        out: List[Outcome] = []
        self._stop, self._use_containers = stop, containers
        self._trace(f, node, [(f, node)], {id(f.node)}, out, max_depth, '')
        return out

    def in_process_scope(self, f: FuncInfo, node: ast.AST) -> bool:
        """``node`` runs with this process on top of the stack: lexically inside ``with self._process_scope():``, or -- the same thing
        spelled out -- after a push of the process stack in ``f`` on every way to it (the pairing rule of C18 checks the restore)."""
        if self.enclosing_with(f, node, 'self._process_scope()'):
            return True
        from .cfg import cfg_of, no_exc
        cfgf = cfg_of(f)
        writes = [m for m in cfgf.nodes if any(isinstance(c, ast.Call) and isinstance(c.func, ast.Attribute) and norm(c.func.value) == 'PROCESS_STACK' and c.func.attr == 'set'
                                                 for c in (walk_shallow(m.expr()) if m.expr() is not None else []))]
        here = cfgf.nodes_containing(node)
        return bool(writes) and bool(here) and all(cfgf.must_pass(cfgf.entry, [h], lambda m: m in writes, edge_ok=no_exc) for h in here)

    def enclosing_with(self, f: FuncInfo, node: ast.AST, text: str) -> bool:
        """Is ``node`` lexically inside ``with <text>:`` within ``f``?"""
        pm = self.parents(f)
        cur = node
        while cur is not f.node and id(cur) in pm:
            par = pm[id(cur)]
            if isinstance(par, (ast.With, ast.AsyncWith)) and any(cur is s for s in par.body):
                if any(norm(i.context_expr) == text for i in par.items):
                    return True
            if isinstance(par, (ast.FunctionDef, ast.AsyncFunctionDef, ast.Lambda)) and par is not f.node:
                break
            cur = par
        return False

    def _trace(self, f: FuncInfo, node: ast.AST, path, seen: Set[int], out: List[Outcome], depth: int, via: str = '') -> None:
        if self._stop is not None:
            why = self._stop(f, node, via)
            if why:
                out.append(Outcome('stopped', list(path), root=why))
                return
        c = self.container_of(f, node) if self._use_containers else None
        if c is not None:
            out.append(Outcome('contained', list(path), container=c))
            return
        rk = self.root_kind(f)
        if rk in ('task', 'done-callback'):
            out.append(Outcome('root', list(path), root=rk))
            # a task function may ALSO be awaited by other plumpy code: keep going for those callers
        callers = self.callers(f)
        if not callers:
            if rk not in ('task', 'done-callback'):
                kind = rk or ('public-entry' if (f.parent is None and not f.name.startswith('_')) or f.name.startswith('__') else 'orphan')
                out.append(Outcome('root', list(path), root=kind))
            return
        if depth == 0:
            raise AnalysisError(f'call chain deeper than the bound while tracing {path[0][0].qualname}')
        public = (f.parent is None and (not f.name.startswith('_')) and f.cls is not None
                  and (f.cls.qualname in API_CLASSES or any(k.qualname in API_HIERARCHIES for k in f.cls.mro_classes())))
        if public and rk not in ('task', 'done-callback'):
            out.append(Outcome('root', list(path), root='public-entry'))
        for g, site, via2 in callers:
            if id(g.node) in seen:
                continue
            self._trace(g, site, path + [(g, site)], seen | {id(g.node)}, out, depth - 1, via2)
