"""Command line driver: one property per invocation."""
from __future__ import annotations

import argparse
import importlib
import json
import os
import sys
import traceback

from .model import AnalysisError
from .report import Check, Ctx

PROPS = [f'C{i:02d}' for i in range(1, 21)]


def run_property(pid: str, tier: str, repo=None, replay=None, quiet=False) -> int:
    from . import cfg as _cfg
    _cfg._CACHE.clear()   # flow graphs are cached by syntax-tree node: a run on another tree starts empty (and frees the previous trees)
    ctx = Ctx(repo)
    chk = Check(pid, tier, ctx)
    mod = importlib.import_module(f'plumpy_sa.props.{pid.lower()}')
    from .props.common import need_anchor_attrs
    need_anchor_attrs(ctx.prog, pid)
    mod.run(chk)
    if replay is not None:
        with open(replay) as fh:
            want = json.load(fh).get('key', {})
        chk.obs = [o for o in chk.obs if o.key() == want]
        if not chk.obs:
            print(f'[{pid}] replay: the obligation {want} no longer exists on this tree')
            return 0
    return chk.finish()


def main(argv) -> int:
    ap = argparse.ArgumentParser(prog='check')
    ap.add_argument('pid')
    ap.add_argument('--tier', default=os.environ.get('VERIF_TIER', 'quick'), choices=['quick', 'thorough'])
    ap.add_argument('--replay')
    ap.add_argument('--repo', default=None)
    a = ap.parse_args(argv)
    pid = a.pid.upper()
    if pid not in PROPS:
        print(f'ANALYSIS-ERROR unknown property {pid}')
        return 2
    try:
        rc = run_property(pid, a.tier, a.repo, a.replay)
        if a.tier == 'thorough' and a.replay is None:
            from . import thorough
            rc = thorough.extra(pid, rc, a.repo)
        return rc
    except BrokenPipeError:
        return 0 if False else 141
    except AnalysisError as exc:
        print(f'ANALYSIS-ERROR property={pid} {exc}')
        return 2
    except Exception:  # any uncaught Python exception is an analysis error, never a verdict
        print(f'ANALYSIS-ERROR property={pid} uncaught exception in the checker:')
        traceback.print_exc(file=sys.stdout)
        return 2
