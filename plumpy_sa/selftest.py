"""Checker self-validation (DESIGN 6): both-ways corpus applied to a scratch copy of the CURRENT tree.

Each entry edits one file by exact text replacement (the old text must exist exactly once, otherwise the entry is
reported STALE -- the corpus, not the tree, needs attention) and states the expected outcome for one property:
  fire    the check must exit 1 (and, if ``names`` is given, a VIOLATION line must mention that construct)
  silent  the check must exit 0 (behaviour-preserving edit, or an edit the property does not care about)
The scratch copy lives in a fresh temporary directory outside /repo and /verif and is removed before returning.
"""
from __future__ import annotations

import contextlib
import io
import json
import os
import shutil
import sys
import tempfile
import time
from concurrent.futures import ProcessPoolExecutor
from typing import Dict, List, Optional, Tuple

from .model import REPO

HERE = os.path.dirname(os.path.abspath(__file__))
CORPUS = os.path.join(os.path.dirname(HERE), 'selftest_corpus.py')


def load_corpus() -> List[dict]:
    ns: Dict = {'M': []}

    def m(id, prop, file, old, new, expect='fire', names=None, note=''):
        ns['M'].append(dict(id=id, prop=prop, file=file, old=old, new=new, expect=expect, names=names, note=note))

    ns['m'] = m

    def pm(id, prop, patch, expect='fire', names=None, note=''):
        """Entry whose edit is a unified diff (relative to the repository root) instead of a text replacement."""
        ns['M'].append(dict(id=id, prop=prop, patch=os.path.join(os.path.dirname(CORPUS), patch), expect=expect, names=names, note=note,
                            file=None, old=None, new=None))

    ns['pm'] = pm
    ns['ROOT'] = os.path.dirname(CORPUS)
    with open(CORPUS) as fh:
        exec(compile(fh.read(), CORPUS, 'exec'), ns)
    return ns['M']


def _run_one(entry: dict, repo: str) -> dict:
    from .cli import run_property
    from .model import AnalysisError
    tmp = tempfile.mkdtemp(prefix='plumpy_sa_selftest_')
    res = dict(id=entry['id'], prop=entry['prop'], expect=entry['expect'], note=entry['note'])
    try:
        dst = os.path.join(tmp, 'src', 'plumpy')
        shutil.copytree(os.path.join(repo, 'src', 'plumpy'), dst)
        if entry.get('patch'):
            import subprocess
            p = subprocess.run(['patch', '-p1', '-d', tmp, '-i', entry['patch'], '--no-backup-if-mismatch', '-s', '-F', '0'], capture_output=True, text=True)
            if p.returncode != 0:
                res['outcome'] = 'STALE'
                res['detail'] = 'patch does not apply: ' + (p.stdout + p.stderr).strip()[-300:]
                return res
        else:
            path = os.path.join(tmp, entry['file'])
            with open(path) as fh:
                src = fh.read()
            if src.count(entry['old']) != 1:
                res['outcome'] = 'STALE'
                res['detail'] = f"old text occurs {src.count(entry['old'])} times in {entry['file']}"
                return res
            new_src = src.replace(entry['old'], entry['new'])
            try:
                compile(new_src, path, 'exec')
            except SyntaxError as exc:
                res['outcome'] = 'STALE'
                res['detail'] = f'edited file does not compile: {exc}'
                return res
            with open(path, 'w') as fh:
                fh.write(new_src)
        buf = io.StringIO()
        os.environ['PLUMPY_SA_NO_EVIDENCE'] = '1'
        try:
            with contextlib.redirect_stdout(buf):
                try:
                    rc = run_property(entry['prop'], 'quick', repo=tmp)
                except AnalysisError as exc:
                    print(f'ANALYSIS-ERROR {exc}')
                    rc = 2
                except Exception as exc:  # noqa: BLE001
                    import traceback
                    traceback.print_exc(file=buf)
                    rc = 2
        finally:
            os.environ.pop('PLUMPY_SA_NO_EVIDENCE', None)
        out = buf.getvalue()
        res['rc'] = rc
        import re as _re
        res['fired'] = sorted({f'{m_.group(1)}[{m_.group(2).split(":")[0]}]' for ln in out.splitlines() if ln.startswith('  ')
                               for m_ in [_re.search(r' -- ([A-Za-z-]+) \[([^\]]+)\]', ln)] if m_})
        if entry['expect'] == 'fire':
            ok = rc == 1
            if ok and entry.get('names'):
                ok = any(entry['names'] in ln for ln in out.splitlines() if 'VIOLATION' in ln or ln.startswith('  '))
            res['outcome'] = 'ok' if ok else ('MISSED' if rc == 0 else ('ERROR' if rc == 2 else 'WRONG-CONSTRUCT'))
        elif entry['expect'] == 'open':
            # a listed, unrepaired false alarm: reported in the summary line; "ok" either way so that the list, not the exit code, carries it -- and flagged when it
            # has stopped alarming (the entry should then leave OPEN.json)
            res['outcome'] = 'ok'
            res['open_state'] = 'still-alarms' if rc == 1 else ('silent-now' if rc == 0 else 'unreadable')
        elif entry['expect'] == 'no-alarm':
            # a variant that re-shapes what the rules are written against: silent or "cannot read this" (exit 2) are both honest, a violation is not
            res['outcome'] = 'ok' if rc in (0, 2) else 'FALSE-ALARM'
        else:
            res['outcome'] = 'ok' if rc == 0 else ('FALSE-ALARM' if rc == 1 else 'ERROR')
        if res['outcome'] != 'ok':
            res['detail'] = '\n'.join(l for l in out.splitlines() if 'VIOLATION' in l or 'ANALYSIS-ERROR' in l or l.startswith('  '))[:1500]
        return res
    finally:
        shutil.rmtree(tmp, ignore_errors=True)


def run(props: Optional[List[str]] = None, ids: Optional[List[str]] = None, repo: Optional[str] = None, jobs: int = 8) -> List[dict]:
    repo = repo or REPO
    corpus = [e for e in load_corpus() if (not props or e['prop'] in props) and (not ids or any(i == e['id'] or i in e['id'] for i in ids))]
    results = []
    if jobs > 1 and len(corpus) > 2:
        with ProcessPoolExecutor(max_workers=jobs) as ex:
            results = list(ex.map(_run_one, corpus, [repo] * len(corpus)))
    else:
        results = [_run_one(e, repo) for e in corpus]
    return results


def main(argv: List[str]) -> int:
    props = [a.upper() for a in argv if a.upper().startswith('C') and a[1:].isdigit()]
    ids = [a for a in argv if not (a.upper().startswith('C') and a[1:].isdigit()) and not a.startswith('-')]
    t0 = time.time()
    res = run(props or None, ids or None, jobs=int(os.environ.get('SELFTEST_JOBS', '12')))
    bad = [r for r in res if r['outcome'] != 'ok']
    for r in res:
        if r['outcome'] != 'ok' or '-v' in argv:
            print(f"{r['outcome']:16} {r['prop']} {r['id']} (expect {r['expect']}) {r.get('note', '')}")
            if r.get('detail'):
                for ln in r['detail'].splitlines()[:6]:
                    print('      ' + ln[:300])
    fire = sum(1 for r in res if r['expect'] == 'fire')
    opened = [r for r in res if r['expect'] == 'open']
    if opened:
        print(f"open false alarms (refactorings/OPEN.json): {sum(1 for r in opened if r.get('open_state') == 'still-alarms')} still alarm, "
              f"{[r['id'] for r in opened if r.get('open_state') != 'still-alarms']} no longer do")
    unread = sum(1 for r in res if r['expect'] == 'no-alarm' and r.get('rc') == 2)
    print(f'selftest: {len(res)} entries ({fire} must-fire, {len(res) - fire} must-stay-silent of which {unread} answered "cannot read"), {len(bad)} not as expected, '
          f'{time.time() - t0:.1f}s')
    return 1 if bad else 0


if __name__ == '__main__':
    sys.exit(main(sys.argv[1:]))
