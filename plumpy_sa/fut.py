"""FUT: typestate of futures -- writer sites, guard classes, multi-writer conflicts (DESIGN 2.2)."""
from __future__ import annotations

import ast
from typing import Dict, FrozenSet, List, Optional, Tuple

from .cfg import cfg_of, no_exc
from .facts import Atom, FuncFacts, pending
from .model import AnalysisError, ClassInfo, FuncInfo, norm, unparse, walk_shallow
from .report import Check, Ctx
from .rules import calls_in_func, last_name, fmt_atom

WRITERS = ('set_result', 'set_exception', 'cancel')


class WriterSite:
    def __init__(self, func: FuncInfo, call: ast.Call, loc: str, op: str):
        self.func, self.call, self.loc, self.op = func, call, loc, op
        self.guard = 'unguarded'
        self.detail = ''


def writer_sites(ctx: Ctx, func: FuncInfo, loc_keys: List[str]) -> List[WriterSite]:
    """Calls ``<loc>.set_result/set_exception/cancel(...)`` in ``func`` for any location key in ``loc_keys``
    (keys are canonical: local aliases and trivial accessors are resolved)."""
    ff = ctx.facts.analyse(func)
    out = []
    for c in calls_in_func(func):
        if isinstance(c.func, ast.Attribute) and c.func.attr in WRITERS:
            key = ff.canon.key(c.func.value)
            if key in loc_keys:
                out.append(WriterSite(func, c, key, c.func.attr))
    return out


def classify(ctx: Ctx, site: WriterSite, entry: FrozenSet[Atom] = frozenset()) -> WriterSite:
    """guard class of a writer site: fresh / guarded / guarded-drop / unguarded."""
    ff = ctx.facts.analyse(site.func, entry)
    facts_all = [fs for _, fs in ff.site_facts(site.call)]
    if all(('fresh', site.loc) in fs for fs in facts_all):
        site.guard = 'fresh'
    elif all(pending(fs, site.loc) for fs in facts_all):
        site.guard = 'guarded'
        if _drops_value(ff, site):
            site.guard = 'guarded-drop'
    else:
        site.guard = 'unguarded'
    held = sorted({a for fs in facts_all for a in fs})
    site.detail = 'facts at the site: ' + (', '.join(fmt_atom(a) for a in held) or 'none')
    return site


def _drops_value(ff: FuncFacts, site: WriterSite) -> bool:
    """The write is guarded by a ``done()`` test; does the already-done branch discard a value that the caller
    handed in (a parameter that flows into the write) without storing it anywhere?"""
    params = set(site.func.params[1:])
    if not site.call.args:
        return False
    used = {n.id for n in ast.walk(site.call.args[0]) if isinstance(n, ast.Name)} & params
    if not used:
        return False
    cfg = ff.cfg
    done_key = f'{site.loc}.done()'
    for t in cfg.nodes:
        if t.kind != 'test':
            continue
        tk = ff.canon.key(t.ast.test)
        if tk == done_key:
            label = 'true'
        elif tk == f'not {done_key}':
            label = 'false'
        else:
            continue
        # nodes on the already-done branch that cannot also be reached from the pending branch
        other = 'false' if label == 'true' else 'true'
        done_nodes = cfg.reachable([s for s, l in t.succ if l == label], include_src=True)
        pend_nodes = cfg.reachable([s for s, l in t.succ if l == other], include_src=True)
        only_done = [n for n in cfg.nodes if n.id in done_nodes and n.id not in pend_nodes]
        stores = False
        for n in only_done:
            e = n.expr()
            if e is None:
                continue
            for x in walk_shallow(e):
                if isinstance(x, ast.Name) and x.id in used:
                    stores = True
        if not stores:
            return True
    return False
