"""Thorough tier (DESIGN 1.7): on top of the obligations of the quick tier

(b) resolved-program cross-check: import /repo's package in a child interpreter and compare -- by ``inspect`` on class
    objects only, nothing instantiated, no coroutine run -- the engine's MRO, effective ``_auto_persist`` sets, LABEL /
    ALLOWED tables and the process state map with what CPython actually built.  A disagreement means the engine
    mis-resolved the program: ANALYSIS-ERROR, never a verdict.
(c) checker self-validation: the both-ways corpus entries of this property applied to scratch copies of the current tree
    (fresh temporary directories outside /repo and /verif, removed before returning).  SELFTEST-FAIL -> exit 2 when the
    real tree itself had no violation.
"""
from __future__ import annotations

import json
import os
import subprocess
import sys
import time
from typing import Any, Dict, List, Optional

from .model import AnalysisError, ClassInfo, Program, REPO
from .report import VERIF

_CHILD = r'''
import inspect, json, sys, importlib, pkgutil
import plumpy
out = {"classes": {}, "state_map": {}, "wc_state_map": {}}
mods = [plumpy] + [importlib.import_module(m.name) for m in pkgutil.walk_packages(plumpy.__path__, "plumpy.")]
for mod in mods:
    for name, obj in vars(mod).items():
        if inspect.isclass(obj) and obj.__module__ == mod.__name__:
            d = {"mro": [f"{c.__module__}.{c.__qualname__}" for c in obj.__mro__]}
            ap = getattr(obj, "_auto_persist", None)
            if isinstance(ap, (set, frozenset)):
                d["auto_persist"] = sorted(ap)
            if "LABEL" in vars(obj) or hasattr(obj, "ALLOWED"):
                lab = getattr(obj, "LABEL", None)
                d["label"] = getattr(lab, "name", None)
                al = getattr(obj, "ALLOWED", None)
                if isinstance(al, (set, frozenset)):
                    d["allowed"] = sorted(getattr(x, "name", str(x)) for x in al)
            d["methods"] = sorted(k for k, v in vars(obj).items() if inspect.isfunction(v) or isinstance(v, (classmethod, staticmethod, property)))
            out["classes"][f"{mod.__name__}.{name}"] = d
out["state_map"] = {k.name: f"{v.__module__}.{v.__qualname__}" for k, v in plumpy.Process.get_state_classes().items()}
out["wc_state_map"] = {k.name: f"{v.__module__}.{v.__qualname__}" for k, v in plumpy.WorkChain.get_state_classes().items()}
json.dump(out, sys.stdout)
'''


def crosscheck(repo: Optional[str] = None) -> Dict[str, Any]:
    repo = repo or REPO
    env = dict(os.environ, PYTHONPATH=os.path.join(repo, 'src'), PYTHONDONTWRITEBYTECODE='1')
    p = subprocess.run(['/venv/bin/python', '-c', _CHILD], capture_output=True, text=True, env=env, timeout=120, cwd='/')
    if p.returncode != 0:
        raise AnalysisError(f'cross-check: importing plumpy from {repo}/src failed: {p.stderr.strip()[-400:]}')
    real = json.loads(p.stdout)
    prog = Program(repo)
    from .props.sym import auto_persist_set
    from .props import common
    disagreements: List[str] = []
    compared = 0
    for c in prog.all_classes():
        key = f'plumpy.{c.module.short}.{c.name}'
        r = real['classes'].get(key)
        if r is None:
            continue  # class defined under TYPE_CHECKING / nested: not importable by name
        compared += 1
        mine = [f'plumpy.{k.module.short}.{k.name}' if isinstance(k, ClassInfo) else k for k in c.mro()]
        theirs = [m for m in r['mro'] if m.startswith('plumpy.')]
        if [m for m in mine if m.startswith('plumpy.')] != theirs:
            disagreements.append(f'MRO of {key}: engine {mine} vs runtime {theirs}')
        if 'auto_persist' in r:
            try:
                ap = sorted(auto_persist_set(prog, c))
            except AnalysisError:
                ap = None
            if ap is not None and ap != r['auto_persist']:
                disagreements.append(f'auto_persist of {key}: engine {ap} vs runtime {r["auto_persist"]}')
        if r.get('label') is not None:
            if common.label_of(prog, c) != r['label']:
                disagreements.append(f'LABEL of {key}: engine {common.label_of(prog, c)} vs runtime {r["label"]}')
            al = common.allowed_of(prog, c)
            if isinstance(al, set) and sorted(al) != r.get('allowed', []):
                disagreements.append(f'ALLOWED of {key}: engine {sorted(al)} vs runtime {r.get("allowed")}')
        mine_m = sorted(m for m in c.methods if not m.endswith('.setter'))
        mangle = f'_{c.name.lstrip("_")}__'
        theirs_m = [('__' + m[len(mangle):]) if m.startswith(mangle) else m for m in r['methods']]
        if any('Enum' in m for m in r['mro']):
            theirs_m = [m for m in theirs_m if m in mine_m]  # members injected by the enum metaclass
        if set(mine_m) != set(theirs_m):
            disagreements.append(f'methods of {key}: only engine {sorted(set(mine_m) - set(theirs_m))}, only runtime {sorted(set(theirs_m) - set(mine_m))}')
    for q, field in (('processes.Process.get_state_classes', 'state_map'),):
        ent = {l: (f'plumpy.{c.module.short}.{c.name}' if c else None) for l, c, _ in common.states_map_entries(prog, prog.func(q))}
        if ent != real[field]:
            disagreements.append(f'{field}: engine {ent} vs runtime {real[field]}')
    return {'classes_compared': compared, 'disagreements': disagreements}


def extra(pid: str, rc: int, repo: Optional[str] = None) -> int:
    t0 = time.time()
    from . import selftest
    cc = crosscheck(repo)
    res = selftest.run(props=[pid], repo=repo or REPO, jobs=int(os.environ.get('SELFTEST_JOBS', '12')))
    bad = [r for r in res if r['outcome'] != 'ok']
    path = os.path.join(VERIF, 'evidence', f'{pid}.json')
    with open(path) as fh:
        ev = json.load(fh)
    ev['coverage']['resolved_program_crosscheck'] = cc
    ev['coverage']['self_validation'] = {
        'entries': len(res),
        'must_fire': sum(1 for r in res if r['expect'] == 'fire'),
        'must_stay_silent': sum(1 for r in res if r['expect'] in ('silent', 'no-alarm', 'open')),
        'answered_cannot_read': [r['id'] for r in res if r['expect'] == 'no-alarm' and r.get('rc') == 2],        # refactorings/UNREADABLE.json
        'listed_open_false_alarms': [r['id'] for r in res if r['expect'] == 'open' and r.get('open_state') == 'still-alarms'],   # refactorings/OPEN.json
        'not_as_expected': [{k: r.get(k) for k in ('id', 'expect', 'outcome', 'detail')} for r in bad],
        'ids': [r['id'] for r in res],
        'rule': 'each entry edits a scratch copy of the CURRENT tree by one exact text replacement and re-runs this property\'s check on it',
    }
    ev['coverage']['evaluations'] = ev['coverage'].get('evaluations', 0) + len(res)
    ev['wall_s'] = round(ev.get('wall_s', 0) + time.time() - t0, 3)
    with open(path, 'w') as fh:
        json.dump(ev, fh, indent=1, default=str)
    print(f'[{pid}] thorough: cross-check {cc["classes_compared"]} classes, {len(cc["disagreements"])} disagreement(s); '
          f'self-validation {len(res)} entries, {len(bad)} not as expected; +{time.time() - t0:.1f}s')
    if cc['disagreements']:
        for d in cc['disagreements'][:10]:
            print(f'ANALYSIS-ERROR property={pid} cross-check: {d}')
        return 2
    if bad:
        for r in bad:
            print(f'SELFTEST-FAIL property={pid} {r["id"]}: expected {r["expect"]}, got {r["outcome"]}')
        return rc if rc == 1 else 2
    return rc
