"""G35 (C11, C12): a falsy non-mapping ('' / [] / 0) given as the value of a port namespace is accepted: validate() replaces it by {}
before the Mapping test (`if not port_values: port_values = {}`)."""
from _common import *  # noqa: F401,F403
from plumpy.ports import PortNamespace

ns = PortNamespace('ns', dynamic=True)
verdicts = {repr(v): ns.validate(v) for v in ('', [], 0, False)}
problems = [k for k, v in verdicts.items() if v is None]


class P(plumpy.Process):
    @classmethod
    def define(cls, spec):
        super().define(spec)
        spec.input_namespace('dyn', dynamic=True)


try:
    p = P({'dyn': ''})
    problems.append(f"process constructed with dyn='': inputs={dict(p.inputs)}, raw_inputs={dict(p.raw_inputs)}")
except (ValueError, TypeError):
    pass
verdict(bool(problems), f'accepted as namespace values: {problems}')
