"""G39 (C19): SavableFuture.recreate_from rebuilds the future by hand: members a subclass declares are saved but never restored."""
from _common import *  # noqa: F401,F403
from plumpy import persistence


@persistence.auto_persist('label')
class Labelled(persistence.SavableFuture):
    def __init__(self, *a, **k):
        super().__init__(*a, **k)
        self.label = 'hello'


async def sc():
    f = Labelled()
    f.label = 'changed after construction'
    state = f.save()
    g = persistence.Savable.load(state)
    return state, getattr(g, 'label', '<missing>')


state, label = loop.run_until_complete(sc())
verdict(label != 'changed after construction', f"saved state has label={state.get('label')!r}; loaded object has label={label!r}")
