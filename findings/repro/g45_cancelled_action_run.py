"""G45 (C05, C04): the future returned by pause() during a step is the pending interrupt action itself; if its holder cancels it,
the end of the step runs a cancelled action: InvalidStateError out of step(), the step's result is lost."""
from _common import *  # noqa: F401,F403


async def sc():
    p = AsyncTwoSteps()
    t = asyncio.ensure_future(p.step_until_terminated())
    await asyncio.sleep(0.01)
    fut = p.pause()
    assert asyncio.isfuture(fut)
    fut.cancel()                      # e.g. the caller's timeout
    try:
        await asyncio.wait_for(t, 1)
        return None, p
    except BaseException as exc:  # noqa: BLE001
        return exc, p


exc, p = loop.run_until_complete(sc())
verdict(exc is not None, f'caller cancelled the future returned by pause(): stepping raised {exc!r}; process state {p.state}')
