import asyncio, plumpy
from plumpy import process_states as ps
plumpy.set_event_loop_policy()
loop = asyncio.get_event_loop()
class W(plumpy.Process):
    def run(self):
        return ps.Wait(self.nxt)
    def nxt(self):
        return 1
w = W()
async def sc():
    t = asyncio.ensure_future(w.step_until_terminated())
    await asyncio.sleep(0.01)
    r = w.pause()
    r = (await r) if asyncio.isfuture(r) else r
    assert r is True and w.paused
    await asyncio.sleep(0.01)
    assert w.kill('bye') is True and w.state == plumpy.ProcessState.KILLED
    await asyncio.sleep(0.05)
    done = t.done()
    print('stepping task returned after pause+kill:', done)
    if not done:
        t.cancel()
    assert done, 'step_until_terminated() never returns: the task is blocked on the pause future'
    assert w.play() is True     # play() after termination must not raise
loop.run_until_complete(sc())
print('OK')
