"""G11 (C04): cancelling the process future must kill the process; on_kill resolves the cancelled future -> EXCEPTED."""
import asyncio
from _common import *

b = AsyncTwoSteps()
out = {}
async def sc():
    b.future().cancel()
    await asyncio.sleep(0.1)
    out['state'] = b.state; out['exc'] = repr(b.exception())
loop.run_until_complete(sc())
verdict(out['state'] != plumpy.ProcessState.KILLED, f"future().cancel(): process ended {out['state']} ({out['exc']})")
