"""Shared helpers for the reproduction scripts (run with /venv/bin/python <script>; exit 1 = defect reproduced)."""
import asyncio
import sys

import plumpy
from plumpy import process_states as ps

plumpy.set_event_loop_policy()
loop = asyncio.get_event_loop()
loop_errors = []
loop.set_exception_handler(lambda l, c: loop_errors.append(repr(c.get('exception') or c.get('message'))))


class AsyncTwoSteps(plumpy.Process):
    async def run(self):
        await asyncio.sleep(0.05)
        return ps.Continue(self.two)

    async def two(self):
        await asyncio.sleep(0.01)
        return 3


class WaitProc(plumpy.Process):
    def run(self):
        return ps.Wait(self.two)

    def two(self, v=None):
        self.v = v
        return 3


def verdict(defect: bool, what: str) -> None:
    if defect:
        print('DEFECT REPRODUCED:', what)
        sys.exit(1)
    print('not reproduced (behaves as the property requires):', what)
    sys.exit(0)
