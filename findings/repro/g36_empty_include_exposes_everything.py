"""G36 (C15): include=() -- an include rule set that selects nothing -- exposes everything (rules are tested for truthiness)."""
from _common import *  # noqa: F401,F403
from plumpy.ports import PortNamespace, InputPort

src = PortNamespace('src')
src['a'] = InputPort('a')
src['ns'] = PortNamespace('ns')
src['ns']['b'] = InputPort('b')
dst = PortNamespace('dst')
dst.absorb(src, include=())
verdict(bool(list(dst.keys())), f'absorb(include=()) copied {sorted(dst.keys())}')
