"""G33 (C10): ToContext(a=f, b=f) -- the same future under two keys: the registries are indexed by the awaitable, only the last key is filled."""
from _common import *  # noqa: F401,F403
from plumpy import WorkChain, ToContext

seen = {}


class WC(WorkChain):
    @classmethod
    def define(cls, spec):
        super().define(spec)
        spec.outline(cls.s1, cls.s2)

    def s1(self):
        f = loop.create_future()
        loop.call_later(0.01, f.set_result, 7)
        return ToContext(a=f, b=f)

    def s2(self):
        seen.update({k: getattr(self.ctx, k, '<missing>') for k in ('a', 'b')})


async def sc():
    w = WC()
    await asyncio.wait_for(w.step_until_terminated(), 2)
    return w


w = loop.run_until_complete(sc())
verdict(seen != {'a': 7, 'b': 7}, f'next step saw {seen} (expected the result under both keys); final state {w.state}')
