"""G21 (C16): an RPC pause that arrives during a step and is called off by a later play(): the direct caller's future is cancelled,
the remote reply future stayed pending for ever."""
from _common import *  # noqa: F401,F403
from plumpy import process_comms


async def sc():
    p = AsyncTwoSteps()
    t = asyncio.ensure_future(p.step_until_terminated())
    await asyncio.sleep(0.01)                      # inside the first (async) step
    reply = p.message_receive(None, process_comms.MessageBuilder.pause('x'))   # kiwipy future
    await asyncio.sleep(0.005)                     # the handler ran pause(): a pending action
    p.play()                                       # calls the pause off
    await t
    await asyncio.sleep(0.05)
    return reply


reply = loop.run_until_complete(sc())
verdict(not reply.done(), f'remote pause called off by play(): reply future done={reply.done()} cancelled={reply.cancelled() if reply.done() else None}')
