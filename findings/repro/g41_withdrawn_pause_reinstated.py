"""G41 (C05): pause() then play() while the step is blocked in WAITING: play() calls the pause off, yet the process ends up paused."""
from _common import *  # noqa: F401,F403


async def sc():
    p = WaitProc()
    t = asyncio.ensure_future(p.step_until_terminated())
    await asyncio.sleep(0.01)
    assert p.state == plumpy.ProcessState.WAITING
    p.pause()
    p.play()
    await asyncio.sleep(0.05)
    paused = p.paused
    p.play()
    p.resume()
    await asyncio.wait_for(t, 2)
    return paused


paused = loop.run_until_complete(sc())
verdict(paused, f'pause(); play() in one loop iteration on a WAITING step: paused afterwards = {paused}')
