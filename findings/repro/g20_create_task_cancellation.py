"""G20 (C20): a coroutine scheduled with create_task that ends by cancellation was never reported: the returned future stayed pending."""
from _common import *  # noqa: F401,F403
from plumpy import futures


async def sc():
    inner = loop.create_future()

    async def coro():
        return await inner

    fut = futures.create_task(coro, loop)
    await asyncio.sleep(0.01)
    inner.cancel()
    await asyncio.sleep(0.05)
    return fut


fut = loop.run_until_complete(sc())
verdict(not fut.done(), f'coroutine awaiting a cancelled future: create_task future done={fut.done()} cancelled={fut.cancelled() if fut.done() else None}')
