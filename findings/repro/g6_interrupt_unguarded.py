"""G6 (C04/C05/C06): WAITING: kill() then pause() in one loop iteration -- the second interruption raises InvalidStateError."""
import asyncio
from _common import *

c = WaitProc()
out = {}
async def sc():
    t = asyncio.ensure_future(c.step_until_terminated())
    await asyncio.sleep(0.01)
    c.kill('k')
    try:
        c.pause('p')
        out['raised'] = None
    except Exception as e:
        out['raised'] = repr(e)
    await asyncio.sleep(0.1)
    t.cancel()
loop.run_until_complete(sc())
verdict(out['raised'] is not None, f"pause() right after kill() on a WAITING process raised {out['raised']}")
