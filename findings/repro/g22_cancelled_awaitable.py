"""G22 (C10, C06): a work chain awaiting a future that is cancelled stayed WAITING for ever (CancelledError escaped the done-callback)."""
from _common import *  # noqa: F401,F403
from plumpy import WorkChain, ToContext


class WC(WorkChain):
    @classmethod
    def define(cls, spec):
        super().define(spec)
        spec.outline(cls.s1, cls.s2)

    def s1(self):
        self.f = loop.create_future()
        return ToContext(r=self.f)

    def s2(self):
        pass


async def sc():
    w = WC()
    t = asyncio.ensure_future(w.step_until_terminated())
    await asyncio.sleep(0.02)
    w.f.cancel()
    await asyncio.sleep(0.1)
    done = t.done()
    if not done:
        t.cancel()
    return w, done


w, done = loop.run_until_complete(sc())
verdict(not done or w.state != plumpy.ProcessState.EXCEPTED, f'awaited future cancelled: work chain is {w.state}, stepping returned={done}, exception={w.exception() if w.state == plumpy.ProcessState.EXCEPTED else None!r}')
