"""G24 (C19): a cancelled SavableFuture could not be saved (save_instance_state asked it for its exception)."""
from _common import *  # noqa: F401,F403
from plumpy import persistence


async def sc():
    f = persistence.SavableFuture()
    f.cancel()
    try:
        g = persistence.Savable.load(f.save())
        return None, g.cancelled()
    except BaseException as exc:  # noqa: BLE001
        return exc, None


exc, cancelled = loop.run_until_complete(sc())
verdict(exc is not None or cancelled is not True, f'save/load of a cancelled future: raised {exc!r}, loaded.cancelled()={cancelled}')
