"""G48 (C07): a process that ended EXCEPTED with plumpy's own EventError is saved, but the saved state can never be loaded (EventError cannot be rebuilt from its args)."""
from _common import *  # noqa: F401,F403


class ResumesWhileRunning(plumpy.Process):
    def run(self):
        self.resume()   # not waiting: @event refuses it with EventError, which becomes the process's exception


async def sc():
    proc = ResumesWhileRunning()
    await proc.step_until_terminated()
    state, exc = proc.state, type(proc.exception()).__name__
    bundle = plumpy.Bundle(proc)
    try:
        loaded = bundle.unbundle(plumpy.LoadSaveContext(loop=loop))
        return state, exc, f'loaded: {loaded.state}, {type(loaded.exception()).__name__}: {loaded.exception()}'
    except Exception as e:  # noqa: BLE001
        return state, exc, f'LOAD FAILED {type(e).__name__}: {e}'


state, exc, outcome = loop.run_until_complete(sc())
verdict('LOAD FAILED' in outcome, f'process ended {state} with {exc}; Bundle(process).unbundle() -> {outcome}')
