"""G19 (C03, C02): a process failed from OUTSIDE its step while WAITING (a call_soon callback that raises -> callback_excepted
-> fail) ends EXCEPTED, but the task running step_until_terminated() stayed blocked on the waiting future for ever."""
from _common import *  # noqa: F401,F403


async def sc():
    p = WaitProc()
    task = asyncio.ensure_future(p.step_until_terminated())
    await asyncio.sleep(0.01)
    assert p.state == plumpy.ProcessState.WAITING

    def boom():
        raise ValueError('boom')

    p.call_soon(boom)
    await asyncio.sleep(0.05)
    assert p.state == plumpy.ProcessState.EXCEPTED, p.state
    done = task.done()
    if not done:
        task.cancel()
    return done, p


done, p = loop.run_until_complete(sc())
verdict(not done, f'callback raised while WAITING: process is {p.state}, exception {p.exception()!r}; step_until_terminated() returned: {done}')
