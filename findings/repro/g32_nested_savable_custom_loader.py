"""G32 (C19, C07): a nested Savable is saved WITHOUT the save context (default loader identifiers) but loaded through the outer context's
loader: a per-save custom loader with its own identifier scheme cannot load what it saved."""
from _common import *  # noqa: F401,F403
from plumpy import loaders, persistence


@persistence.auto_persist('v')
class Inner(persistence.Savable):
    def __init__(self):
        self.v = 1


@persistence.auto_persist('inner')
class Outer(persistence.Savable):
    def __init__(self):
        self.inner = Inner()


REG = {'reg:outer': Outer, 'reg:inner': Inner}


class RegistryLoader(loaders.ObjectLoader):
    def load_object(self, identifier):
        if identifier not in REG:
            raise ValueError(f'unknown identifier {identifier}')
        return REG[identifier]

    def identify_object(self, obj):
        return {v: k for k, v in REG.items()}[obj]


state = Outer().save(persistence.LoadSaveContext(loader=RegistryLoader()))
err = None
try:
    back = persistence.Savable.load(state, persistence.LoadSaveContext(loader=RegistryLoader()))
except Exception as exc:  # noqa: BLE001
    err = exc
verdict(err is not None, f"outer class saved as {state['!!meta']['class_name']!r}, nested as {state['inner']['!!meta']['class_name']!r}; load raised {err!r}")
