"""G29 (C11): a port namespace with a declared default: the first construction fills the DEFAULT OBJECT in place, the second raises TypeError."""
from _common import *  # noqa: F401,F403


class P(plumpy.Process):
    @classmethod
    def define(cls, spec):
        super().define(spec)
        spec.input_namespace('ns', default={'sub': {}})
        spec.input('ns.sub.p', valid_type=int, default=5)


declared = repr(P.spec().inputs['ns'].default)
err = None
try:
    a = P()
    b = P()
    same = dict(a.inputs['ns']['sub']) == dict(b.inputs['ns']['sub']) == {'p': 5}
except Exception as exc:  # noqa: BLE001
    err, same = exc, False
after = repr(P.spec().inputs['ns'].default)
verdict(err is not None or not same or declared != after, f'two constructions with the same (empty) inputs: error {err!r}; declared default before {declared}, after {after}')
