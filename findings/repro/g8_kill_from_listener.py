"""G8 (C04): a listener kills during the end-of-step transition -- step()'s finally cancels the freshly deferred kill."""
import asyncio
from _common import *

class L(plumpy.ProcessListener):
    def __init__(self):
        super().__init__(); self.r = None; self.n = 0
    def on_process_running(self, proc):
        self.n += 1
        if self.n == 2:
            self.r = proc.kill('from listener')

b = AsyncTwoSteps(); l = L(); b.add_process_listener(l)
out = {}
async def sc():
    t = asyncio.ensure_future(b.step_until_terminated())
    await asyncio.sleep(0.4)
    out['state'] = b.state
    t.cancel()
loop.run_until_complete(sc())
verdict(out['state'] != plumpy.ProcessState.KILLED, f"kill() from on_process_running during a transition: process ended {out['state']}, kill() had returned {l.r!r}")
