"""G28 (C08): a Bundle that is unbundled and continued twice gives two different executions: unbundle() hands the stored values to the
new process without copying, the first continuation changes the bundle."""
from _common import *  # noqa: F401,F403
from plumpy import WorkChain


class WC(WorkChain):
    @classmethod
    def define(cls, spec):
        super().define(spec)
        spec.outline(cls.s1, cls.s2, cls.s3)
        spec.outputs.dynamic = True

    def s1(self):
        self.ctx.trace = ['s1']

    def s2(self):
        self.ctx.trace.append('s2')

    def s3(self):
        self.ctx.trace.append('s3')
        self.out('trace', list(self.ctx.trace))


async def sc():
    w = WC()
    await w.step()      # CREATED -> RUNNING
    await w.step()      # s1
    bundle = plumpy.Bundle(w)
    out = []
    for _ in range(2):
        p = bundle.unbundle(plumpy.LoadSaveContext(loop=loop))
        await p.step_until_terminated()
        out.append(p.outputs['trace'])
    return out


first, second = loop.run_until_complete(sc())
verdict(first != second, f'same Bundle continued twice: first run {first}, second run {second}')
