"""G10 (C06/C10): a workchain's awaited future completes in the same loop iteration as a pause() -- InvalidStateError in the loop."""
import asyncio
from _common import *

class WC(plumpy.WorkChain):
    @classmethod
    def define(cls, spec):
        super().define(spec); spec.outline(cls.s1, cls.s2)
    def s1(self):
        self.f = asyncio.Future()
        return plumpy.ToContext(r=self.f)
    def s2(self):
        self.got = self.ctx.r

wc = WC()
out = {}
async def sc():
    t = asyncio.ensure_future(wc.step_until_terminated())
    await asyncio.sleep(0.02)
    wc.f.set_result(42)
    wc.pause()
    await asyncio.sleep(0.05)
    wc.play()
    await asyncio.sleep(0.2)
    out['state'] = wc.state; out['got'] = getattr(wc, 'got', None)
    t.cancel()
loop.run_until_complete(sc())
verdict(bool(loop_errors) or out['state'] != plumpy.ProcessState.FINISHED, f"state {out['state']}, ctx value seen by next step {out['got']!r}, loop errors {loop_errors}")
