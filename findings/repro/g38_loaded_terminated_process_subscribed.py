"""G38 (C16): a process loaded from a bundle in a terminal state subscribes to the communicator in init() and never un-subscribes."""
from _common import *  # noqa: F401,F403
import kiwipy


class Comm(kiwipy.LocalCommunicator):
    pass


class P(plumpy.Process):
    def run(self):
        return 1


async def sc():
    comm = Comm()
    p = P()
    await p.step_until_terminated()
    bundle = plumpy.Bundle(p)
    q = bundle.unbundle(plumpy.LoadSaveContext(loop=loop, communicator=comm))
    # the loaded process is FINISHED: it must not be reachable by RPC any more
    try:
        fut = comm.rpc_send(str(q.pid), plumpy.process_comms.MessageBuilder.status())
        await asyncio.sleep(0.05)
        return q, True
    except kiwipy.UnroutableError:
        return q, False


q, reachable = loop.run_until_complete(sc())
verdict(reachable, f'process loaded in state {q.state}: still subscribed to RPC = {reachable}')
