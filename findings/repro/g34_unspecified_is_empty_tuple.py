"""G34 (C11, C12): ports.UNSPECIFIED = () is compared with `is`, and CPython has one empty tuple: the VALUE () means "nothing given"."""
from _common import *  # noqa: F401,F403

problems = []


class A(plumpy.Process):
    @classmethod
    def define(cls, spec):
        super().define(spec)
        spec.input('i', valid_type=int, required=False)
        spec.input('t', valid_type=tuple, required=False)


a = A({'i': tuple()})
if a.inputs.get('i', None) == ():
    problems.append(f"an int port accepted the value (): inputs={dict(a.inputs)}")


class B(plumpy.Process):
    @classmethod
    def define(cls, spec):
        super().define(spec)
        spec.input('t', valid_type=tuple)


try:
    B({'t': ()})
except ValueError as exc:
    problems.append(f'the conforming value () for a required tuple port was rejected: {exc}')


class C(plumpy.Process):
    @classmethod
    def define(cls, spec):
        super().define(spec)
        spec.output('n', valid_type=int, required=False)

    def run(self):
        self.out('n', ())


c = C()
try:
    c.execute()
    if c.outputs.get('n', None) == ():
        problems.append(f'out() stored () in an int output port: outputs={dict(c.outputs)}, successful={c.is_successful}')
except Exception:  # noqa: BLE001
    pass
verdict(bool(problems), '; '.join(problems) or 'the value () is validated like any other')
