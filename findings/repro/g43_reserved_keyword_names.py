"""G43 (C13): Continue(f, **kwargs) passes the user's keywords through create_state(state_label, ...) and Running(process, run_fn, ...):
a keyword named like one of those parameters cannot be delivered -- the process ends EXCEPTED with TypeError."""
from _common import *  # noqa: F401,F403

got = {}


class P(plumpy.Process):
    def run(self):
        return ps.Continue(self.nxt, process='value-for-process', state_label='value-for-label')

    def nxt(self, **kwargs):
        got.update(kwargs)
        return 1


async def sc():
    p = P()
    await p.step_until_terminated()
    return p


p = loop.run_until_complete(sc())
verdict(p.state != plumpy.ProcessState.FINISHED or got != {'process': 'value-for-process', 'state_label': 'value-for-label'},
        f'Continue(f, process=..., state_label=...): state {p.state}, exception {p.exception() if p.state == plumpy.ProcessState.EXCEPTED else None!r}, f received {got}')
