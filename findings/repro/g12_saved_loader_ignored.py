from plumpy import loaders, persistence

class PrefixLoader(loaders.DefaultObjectLoader):
    """A custom loader whose identifiers the default loader does not understand."""
    def identify_object(self, obj):
        return 'X|' + super().identify_object(obj)
    def load_object(self, ident):
        return super().load_object(ident[2:] if ident.startswith('X|') else ident)

@persistence.auto_persist('a')
class S(persistence.Savable):
    def __init__(self): self.a = 5

saved = S().save(persistence.LoadSaveContext(loader=PrefixLoader()))
print('saved meta:', saved[persistence.META])
try:
    print('recorded loader found:', persistence.Savable.get_custom_meta(saved, persistence.META__OBJECT_LOADER))
except ValueError as exc:
    print('recorded loader NOT found by get_custom_meta:', exc)
obj = persistence.Savable.load(saved)        # no loader given: the one recorded in the saved state must be used
assert isinstance(obj, S) and obj.a == 5
print('OK')
