"""G27 (C15): absorb() popped the namespace options out of the caller's dictionary: the same dict passed to a second expose lost its overrides."""
from _common import *  # noqa: F401,F403
from plumpy.ports import PortNamespace, InputPort

src = PortNamespace('src')
src['x'] = InputPort('x')
opts = {'help': 'overridden help', 'required': False}
d1, d2 = PortNamespace('d1'), PortNamespace('d2')
d1.absorb(src, namespace_options=opts)
left = dict(opts)
d2.absorb(src, namespace_options=opts)
verdict(left != {'help': 'overridden help', 'required': False} or d2.help != 'overridden help',
        f'options dictionary after the first absorb: {left}; second destination help={d2.help!r}')
