import asyncio, plumpy
plumpy.set_event_loop_policy()
loop=asyncio.get_event_loop()
errs=[]
loop.set_exception_handler(lambda l,c: errs.append(repr(c.get('exception') or c.get('message'))))
class A(plumpy.Process):
    async def run(self):
        def bad(): raise ValueError('cb')
        self.call_soon(bad)
        await asyncio.sleep(0.05)
        return 7
a=A(); seen=[]
a.add_state_event_callback(plumpy.base.state_machine.StateEventHook.ENTERED_STATE, lambda sm,h,s: seen.append((sm.state, repr(sm.exception()))))
async def sc():
    t=asyncio.ensure_future(a.step_until_terminated())
    await asyncio.sleep(0.2)
    print('task done', t.done(), t.exception() if t.done() else None)
loop.run_until_complete(sc())
print('state', a.state, repr(a.exception()), seen, errs)
n_exc=sum(1 for s,_ in seen if s==plumpy.ProcessState.EXCEPTED)
assert n_exc==1, f'EXCEPTED entered {n_exc} times'
assert isinstance(a.exception(), ValueError)
print('OK')
