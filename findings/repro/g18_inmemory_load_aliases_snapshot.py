import asyncio, tempfile, plumpy
plumpy.set_event_loop_policy()

class WC(plumpy.WorkChain):
    @classmethod
    def define(cls, spec):
        super().define(spec)
        spec.outline(cls.s1, cls.s2)
    def s1(self): self.ctx.lst = [1]
    def s2(self): self.ctx.lst.append(2)

def history(persister):
    wc = WC()
    loop = asyncio.get_event_loop()
    loop.run_until_complete(wc.step())   # created -> running
    loop.run_until_complete(wc.step())   # s1 done
    persister.save_checkpoint(wc)
    seen = []
    for _ in range(3):                   # restore the same checkpoint three times in a row
        proc = persister.load_checkpoint(wc.pid).unbundle(plumpy.LoadSaveContext())
        before = list(proc.ctx.lst)
        proc.execute()
        seen.append((before, list(proc.ctx.lst)))
    return seen

mem = history(plumpy.InMemoryPersister())
pic = history(plumpy.PicklePersister(tempfile.mkdtemp()))
print('in-memory:', mem)
print('pickle   :', pic)
assert mem == pic == [([1], [1, 2])] * 3, 'a loaded-and-continued process changed the stored snapshot'
print('OK')
