"""G40 (C19): a Savable with two bases that both declare members persists only those of the first base in the MRO."""
from _common import *  # noqa: F401,F403
from plumpy import persistence


@persistence.auto_persist('x')
class MixX(persistence.Savable):
    pass


@persistence.auto_persist('y')
class MixY(persistence.Savable):
    pass


@persistence.auto_persist('z')
class Both(MixX, MixY):
    def __init__(self):
        self.x, self.y, self.z = 1, 2, 3


state = Both().save()
verdict('y' not in state, f'saved keys {sorted(k for k in state if not k.startswith("!!"))} (declared: x by MixX, y by MixY, z by Both)')
