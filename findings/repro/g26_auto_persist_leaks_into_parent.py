"""G26 (C19): Savable.auto_persist() called from a subclass's persist() added the members to the PARENT's set."""
from _common import *  # noqa: F401,F403
from plumpy import persistence


class A(persistence.Savable):
    def __init__(self):
        self.a = 1


@persistence.auto_persist('a')
class A2(A):
    pass


class B(A2):
    def __init__(self):
        super().__init__()
        self.b = 2

    @classmethod
    def persist(cls):
        cls.auto_persist('b')


err = None
try:
    sb = B().save()
    sa = A2().save()      # the parent: has no attribute 'b'
except Exception as exc:  # noqa: BLE001
    err, sa = exc, {}
verdict(err is not None or 'b' in sa, f'parent saved after the subclass declared a member in persist(): error {err!r}, parent state keys {sorted(sa)}')
