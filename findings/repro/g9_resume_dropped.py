"""G9 (C06): WAITING: pause() then resume(v) in one loop iteration -- the resume value is dropped, the process waits forever."""
import asyncio
from _common import *

w = WaitProc()
out = {}
async def sc():
    t = asyncio.ensure_future(w.step_until_terminated())
    await asyncio.sleep(0.01)
    w.pause(); w.resume('val')
    await asyncio.sleep(0.05)
    w.play()
    await asyncio.sleep(0.2)
    out['state'] = w.state; out['v'] = getattr(w, 'v', '<continuation never ran>')
    t.cancel()
loop.run_until_complete(sc())
verdict(out['state'] == plumpy.ProcessState.WAITING, f"resumed while a pause was being delivered: after play() the state is {out['state']}, continuation got {out['v']!r}")
