"""G25 (C03): a call_soon handle cancelled while its async callback is already running; the callback then raises:
the failure was reported through the cleared process reference -> AttributeError into the loop, process not EXCEPTED."""
from _common import *  # noqa: F401,F403


async def sc():
    p = WaitProc()
    t = asyncio.ensure_future(p.step_until_terminated())
    await asyncio.sleep(0.01)
    gate = loop.create_future()

    async def cb():
        await gate
        raise ValueError('boom')

    handle = p.call_soon(cb)
    await asyncio.sleep(0.01)          # the callback is running, blocked on the gate
    handle.cancel()
    gate.set_result(None)
    await asyncio.sleep(0.05)
    st = p.state
    if not t.done():
        p.kill()
        await asyncio.sleep(0.01)
    return st


st = loop.run_until_complete(sc())
verdict(st != plumpy.ProcessState.EXCEPTED or bool(loop_errors), f'callback raised after its handle was cancelled: process is {st}, errors that reached the event loop: {loop_errors}')
