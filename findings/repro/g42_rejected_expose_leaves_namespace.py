"""G42 (C15): expose with exclude=() and an include list is rejected only inside absorb(), after the target namespace was created."""
from _common import *  # noqa: F401,F403
from plumpy import ProcessSpec


class Child(plumpy.Process):
    @classmethod
    def define(cls, spec):
        super().define(spec)
        spec.input('a')


spec = ProcessSpec()
rejected = False
try:
    spec.expose_inputs(Child, namespace='target', exclude=(), include=('a',))
except ValueError:
    rejected = True
verdict(rejected and 'target' in spec.inputs, f"rejected={rejected}; destination ports afterwards: {sorted(spec.inputs.keys())}")
