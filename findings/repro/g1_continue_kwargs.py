import plumpy
from plumpy import process_states as ps
plumpy.set_event_loop_policy()
class P(plumpy.Process):
    def run(self):
        return ps.Continue(self.nxt, 1, b=2)
    def nxt(self, a, b=None):
        self.got = (a, b)
p = P(); p.execute()
print('continuation received', p.got)
assert p.got == (1, 2), 'Continue(f, 1, b=2) must run f(1, b=2)'
# and after a checkpoint between the return and the next step
import asyncio
q = P(); loop = asyncio.get_event_loop()
loop.run_until_complete(q.step()); loop.run_until_complete(q.step())
b = plumpy.Bundle(q); q2 = b.unbundle(); q2.execute()
assert q2.got == (1, 2), q2.got
print('OK')
