"""G7 (C04): async step: pause(), kill(), play() in one iteration -- play() cancels the pending kill."""
import asyncio
from _common import *

b = AsyncTwoSteps()
out = {}
async def sc():
    t = asyncio.ensure_future(b.step_until_terminated())
    await asyncio.sleep(0.01)
    b.pause(); k = b.kill('k'); b.play()
    await asyncio.sleep(0.4)
    out['state'] = b.state
    out['k_cancelled'] = asyncio.isfuture(k) and k.cancelled()
    t.cancel()
loop.run_until_complete(sc())
verdict(out['state'] != plumpy.ProcessState.KILLED, f"pause, kill, play during one step: ended {out['state']}, kill future cancelled={out['k_cancelled']}")
