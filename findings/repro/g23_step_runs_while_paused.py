"""G23 (C05): paused; play() then pause() before the woken stepping task runs: the next step ran although the process reported paused."""
from _common import *  # noqa: F401,F403

ran = []


class TwoSync(plumpy.Process):
    def run(self):
        ran.append(('run', self.paused))
        return ps.Continue(self.two)

    def two(self):
        ran.append(('two', self.paused))
        return 1


async def sc():
    p = TwoSync()
    r = p.pause()
    assert r is True and p.paused
    t = asyncio.ensure_future(p.step_until_terminated())
    await asyncio.sleep(0.01)          # the stepping task is blocked on the pause future
    p.play()
    p.pause()                          # same loop iteration: the woken task has not run yet
    await asyncio.sleep(0.05)
    bad = [x for x in ran if x[1]]
    state_while_paused = (p.state, p.paused)
    p.play()
    await t
    return bad, state_while_paused


bad, (state, paused) = loop.run_until_complete(sc())
verdict(bool(bad) or (paused and state != plumpy.ProcessState.CREATED),
        f'paused before the first step, play() then pause() in one iteration: state {state} while paused={paused} (a step was executed while paused), user steps run while paused: {bad}')
