"""G16 (C18): Process.current() inside lifecycle hooks is not the process."""
import asyncio
from _common import *

class H(plumpy.Process):
    seen = {}
    def on_run(self): super().on_run(); self.seen['on_run'] = plumpy.Process.current()
    def on_running(self): super().on_running(); self.seen['on_running'] = plumpy.Process.current()
    def on_finish(self, r, s): super().on_finish(r, s); self.seen['on_finish'] = plumpy.Process.current()
    def on_exit_running(self): super().on_exit_running(); self.seen['on_exit_running'] = plumpy.Process.current()
    def run(self):
        self.seen['run'] = plumpy.Process.current()
        return ps.Continue(self.two)
    def two(self): self.seen['two'] = plumpy.Process.current()

h = H(); h.execute()
wrong = sorted(k for k, v in h.seen.items() if v is not h)
print({k: (v is h) for k, v in h.seen.items()})
verdict(bool(wrong), f"Process.current() is not the process inside {wrong}")
