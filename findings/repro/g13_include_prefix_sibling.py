from plumpy.ports import InputPort, PortNamespace

def tree(ns):
    return {k: (tree(v) if isinstance(v, PortNamespace) else 'port') for k, v in ns.items()}

src = PortNamespace('src')
src.create_port_namespace('base')['x'] = InputPort('x')
src.create_port_namespace('base2')['y'] = InputPort('y')
src['base2']['z'] = InputPort('z')

dst = PortNamespace('dst')
dst.absorb(src, include=['base2.y'])
print('include=[base2.y] ->', tree(dst))
assert tree(dst) == {'base2': {'y': 'port'}}, 'a namespaced include rule selected a sibling whose name is a prefix of the rule'
dst = PortNamespace('dst')
dst.absorb(src, include=['base'])
assert tree(dst) == {'base': {'x': 'port'}}, tree(dst)
print('OK')
