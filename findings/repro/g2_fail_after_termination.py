import asyncio, plumpy
plumpy.set_event_loop_policy()
loop=asyncio.get_event_loop()
class Q(plumpy.Process):
    def run(self): return 5
q=Q(); q.execute()
assert q.state==plumpy.ProcessState.FINISHED
def bad(): raise RuntimeError('late')
q.call_soon(bad)
loop.run_until_complete(asyncio.sleep(0.01))
print('after late callback:', q.state)
assert q.state==plumpy.ProcessState.FINISHED, 'late callback changed a terminal state'
q2=Q(); q2.execute()
try:
    q2.fail(RuntimeError('x'), None)
except Exception as e: print('fail() on a finished process raised', type(e).__name__)
print('after fail():', q2.state)
assert q2.state==plumpy.ProcessState.FINISHED, 'fail() changed a terminal state'
print('OK')
