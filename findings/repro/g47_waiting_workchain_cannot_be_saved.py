"""G47 (C07 / C08): a work chain that waits for a child cannot be checkpointed -- Waiting._awaiting (a dict keyed by futures) is auto-persisted and deep-copied."""
from _common import *  # noqa: F401,F403


class Child(plumpy.Process):
    async def run(self):
        await asyncio.sleep(0.05)


class WC(plumpy.WorkChain):
    @classmethod
    def define(cls, spec):
        super().define(spec)
        spec.outline(cls.a, cls.b)

    def a(self):
        return plumpy.ToContext(c=self.launch(Child))

    def b(self):
        pass


async def sc():
    wc = WC()
    task = asyncio.ensure_future(wc.step_until_terminated())
    while wc.state != plumpy.ProcessState.WAITING:
        await asyncio.sleep(0)
    try:
        plumpy.Bundle(wc)
        outcome = None
    except Exception as exc:  # noqa: BLE001
        outcome = f'{type(exc).__name__}: {exc}'
    await task
    return outcome


outcome = loop.run_until_complete(sc())
verdict(outcome is not None, f'Bundle(<work chain in WAITING on a child>) -> {outcome}')
