"""G17 (C04): WAITING: pause() then kill() in one loop iteration -- kill() raises, the kill is lost and the process becomes unkillable."""
import asyncio
from _common import *

c = WaitProc()
out = {}
async def sc():
    t = asyncio.ensure_future(c.step_until_terminated())
    await asyncio.sleep(0.01)
    c.pause('p')
    try:
        c.kill('k'); out['kill_raised'] = None
    except Exception as e:
        out['kill_raised'] = repr(e)
    await asyncio.sleep(0.1)
    try:
        out['second_kill'] = repr(c.kill())
    except Exception as e:
        out['second_kill'] = 'raised ' + repr(e)
    c.play(); await asyncio.sleep(0.1)
    out['state'] = c.state
    t.cancel()
loop.run_until_complete(sc())
print(out)
verdict(out['state'] != plumpy.ProcessState.KILLED, f"pause then kill on a WAITING process: kill() raised {out['kill_raised']}, later kill() -> {out['second_kill']}, final state {out['state']}")
