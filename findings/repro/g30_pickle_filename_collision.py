"""G30 (C14, C17): PicklePersister maps different (pid, tag) keys to one file: (1, '2') and ('1.2', None) are both '1.2.pickle'."""
import tempfile
from _common import *  # noqa: F401,F403


class P1(plumpy.Process):
    def run(self):
        return 1


class P2(plumpy.Process):
    def run(self):
        return 2


with tempfile.TemporaryDirectory() as d:
    pers = plumpy.PicklePersister(d)
    a = P1(pid=1)
    b = P2(pid='1.2')
    pers.save_checkpoint(a, tag='2')
    pers.save_checkpoint(b)
    same_file = plumpy.PicklePersister.pickle_filename(1, '2') == plumpy.PicklePersister.pickle_filename('1.2')
    loaded = pers.load_checkpoint(1, '2').unbundle(plumpy.LoadSaveContext(loop=loop))
    verdict(same_file or type(loaded).__name__ != 'P1', f'file names {plumpy.PicklePersister.pickle_filename(1, "2")!r} / {plumpy.PicklePersister.pickle_filename("1.2")!r}; '
            f'load_checkpoint(1, "2") gives a {type(loaded).__name__}')
