"""G31 (C02, C03): close() on a live process drops the state-event hooks; a later kill() (or a failing callback) enters the terminal state
with nobody listening: the future stays pending for ever and no listener is told."""
from _common import *  # noqa: F401,F403

events = []


class L(plumpy.ProcessListener):
    def on_process_killed(self, process, msg):
        events.append('killed')


async def sc():
    p = WaitProc()
    p.add_process_listener(L())
    p.close()
    p.kill('bye')
    await asyncio.sleep(0.02)
    return p


p = loop.run_until_complete(sc())
verdict(p.state == plumpy.ProcessState.KILLED and (not p.future().done() or not events),
        f'close() then kill(): state {p.state}, future done={p.future().done()}, listener notifications {events}')
