"""G46 (C15): absorb copies the namespace properties through their setters in alphabetical order; valid_type's setter switches dynamic on,
after dynamic was copied: the destination does not get the source's dynamic=False."""
from _common import *  # noqa: F401,F403
from plumpy.ports import PortNamespace

src = PortNamespace('src', dynamic=True, valid_type=int)
src.dynamic = False          # typed but not dynamic
dst = PortNamespace('dst')
dst.absorb(src)
verdict(dst.dynamic != src.dynamic, f'source: dynamic={src.dynamic}, valid_type={src.valid_type}; destination after absorb: dynamic={dst.dynamic}')
