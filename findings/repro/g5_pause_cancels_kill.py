"""G5 (C04): async step: kill() then pause() -- pause() replaces the pending kill action; the kill is lost."""
import asyncio
from _common import *

b = AsyncTwoSteps()
out = {}
async def sc():
    t = asyncio.ensure_future(b.step_until_terminated())
    await asyncio.sleep(0.01)
    k = b.kill('k')
    b.pause('p')
    await asyncio.sleep(0.3)
    b.play()
    await asyncio.sleep(0.3)
    out['state'] = b.state
    out['kill_future_cancelled'] = asyncio.isfuture(k) and k.cancelled()
    t.cancel()
loop.run_until_complete(sc())
print(out)
verdict(out['state'] != plumpy.ProcessState.KILLED, f"kill() requested during a step, then pause(): process ended {out['state']} (kill action cancelled: {out['kill_future_cancelled']})")
