"""G37 (C15): exposing a source namespace over a destination namespace of the same name REPLACES it: ports the destination had there are lost."""
from _common import *  # noqa: F401,F403
from plumpy.ports import PortNamespace, InputPort

src = PortNamespace('src')
src['ns'] = PortNamespace('ns')
src['ns']['y'] = InputPort('y')
dst = PortNamespace('dst')
dst['ns'] = PortNamespace('ns')
dst['ns']['x'] = InputPort('x')
dst.absorb(src)
verdict('x' not in dst['ns'], f"destination ns had ['x']; after absorbing a source with ns.y it has {sorted(dst['ns'].keys())}")
