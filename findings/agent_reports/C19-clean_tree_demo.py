# -*- coding: utf-8 -*-
"""Pre-existing violations of the Savable round-trip property on the CLEAN tree.

Each check is independent; all are run, the findings are printed, and the script exits non-zero if any of them
fails (on the clean tree all of them do).  See clean_tree_finding.md.
"""

import asyncio
import importlib
import sys
import traceback

import plumpy

FAILED = []


def check(func):
    try:
        func()
    except BaseException as exc:  # CancelledError is a BaseException
        FAILED.append(func.__name__)
        print(f'[VIOLATED] {func.__name__}: {type(exc).__name__}: {exc}')
        traceback.print_exc(limit=3)
    else:
        print(f'[ok]       {func.__name__}')


# -- F1 ---------------------------------------------------------------------------------------------------------------
def f1_cancelled_future_round_trip():
    """A cancelled SavableFuture cannot even be saved: save_instance_state calls self.exception()"""
    future = plumpy.SavableFuture(loop=LOOP)
    future.cancel()
    saved = future.save()  # raises asyncio.CancelledError
    loaded = plumpy.Savable.load(saved, plumpy.LoadSaveContext(loop=LOOP))
    assert loaded.cancelled()


# -- F2 ---------------------------------------------------------------------------------------------------------------
@plumpy.auto_persist('label')
class LabelledFuture(plumpy.SavableFuture):
    def __init__(self, label='unset', loop=None):
        super().__init__(loop=loop)
        self.label = label


def f2_future_subclass_members():
    """SavableFuture.recreate_from never loads the auto_persist members declared further down the chain"""
    future = LabelledFuture('important', loop=LOOP)
    saved = future.save()
    assert saved['label'] == 'important'  # it IS saved
    loaded = plumpy.Savable.load(saved, plumpy.LoadSaveContext(loop=LOOP))
    assert loaded.label == 'important', f'label restored as {loaded.label!r}'


# -- F3 ---------------------------------------------------------------------------------------------------------------
@plumpy.auto_persist('a')
class Base(plumpy.Savable):
    def __init__(self):
        self.a = 1


class Derived(Base):
    def __init__(self):
        super().__init__()
        self.b = 2

    @classmethod
    def persist(cls):
        # the documented-by-existence hook: Savable.persist() is called before the first save/load of an instance
        cls.auto_persist('b')


def f3_classmethod_auto_persist_leaks_into_parent():
    """Savable.auto_persist (the classmethod) updates the set inherited from the parent in place"""
    derived = Derived()
    loaded = plumpy.Savable.load(derived.save())
    assert (loaded.a, loaded.b) == (1, 2)
    # ... but now 'b' is a declared member of Base as well, and a Base can no longer be saved
    base = Base()
    saved = base.save()  # AttributeError: 'Base' object has no attribute 'b'
    assert plumpy.Savable.load(saved).a == 1


# -- F4 ---------------------------------------------------------------------------------------------------------------
class PrefixLoader(plumpy.ObjectLoader):
    """A custom loader with its own identifier scheme"""

    def identify_object(self, obj):
        return f'px|{obj.__module__}|{obj.__name__}'

    def load_object(self, identifier):
        if not identifier.startswith('px|'):
            raise ValueError(f'unknown identifier {identifier}')
        _, module, name = identifier.split('|')
        return getattr(importlib.import_module(module), name)


@plumpy.auto_persist('v')
class Inner(plumpy.Savable):
    def __init__(self):
        self.v = 3


@plumpy.auto_persist('inner')
class Outer(plumpy.Savable):
    def __init__(self):
        self.inner = Inner()


def f4_nested_savable_with_per_save_loader():
    """save_members saves nested Savables with value.save(): the save context (custom loader) is not passed down, but
    on load the outer (recorded) loader IS passed down and is asked for an identifier it never produced"""
    saved = Outer().save(plumpy.LoadSaveContext(loader=PrefixLoader()))
    loaded = plumpy.Savable.load(saved)  # ValueError: unknown identifier __main__:Inner
    assert loaded.inner.v == 3


# -- F5 ---------------------------------------------------------------------------------------------------------------
@plumpy.auto_persist('x')
class MixX(plumpy.Savable):
    pass


@plumpy.auto_persist('y')
class MixY(plumpy.Savable):
    pass


@plumpy.auto_persist('z')
class Both(MixX, MixY):
    def __init__(self):
        self.x, self.y, self.z = 1, 2, 3


def f5_two_declaring_bases():
    """With two bases that both declare members only the declarations of the first one in the MRO are inherited"""
    saved = Both().save()
    loaded = plumpy.Savable.load(saved)
    assert (loaded.x, loaded.z) == (1, 3)
    assert getattr(loaded, 'y', None) == 2, f"member 'y' declared by MixY was not persisted: {saved}"


if __name__ == '__main__':
    LOOP = asyncio.new_event_loop()
    asyncio.set_event_loop(LOOP)
    for fn in (
        f1_cancelled_future_round_trip,
        f2_future_subclass_members,
        f3_classmethod_auto_persist_leaks_into_parent,
        f4_nested_savable_with_per_save_loader,
        f5_two_declaring_bases,
    ):
        check(fn)
    LOOP.close()
    if FAILED:
        print(f'clean-tree violations: {FAILED}')
        sys.exit(1)
    print('no violations')
