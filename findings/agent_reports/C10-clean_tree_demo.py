# -*- coding: utf-8 -*-
"""Violations of the ToContext barrier property that are already present in the CLEAN tree.

 1. completion + pause() between the same two event-loop callbacks: the last awaited future completes and the
    workchain is paused before the loop gets to run the callbacks -> after play() the workchain waits forever
    (the same placement with a FAILING future: the workchain never excepts).
 2. the same future / child registered under two keys: only one of the keys is filled in.
 3. an awaited child whose future is cancelled (which kills the child): the workchain waits forever instead of
    ending EXCEPTED.

Each check prints its verdict; the script exits non-zero if any of them is violated.
"""

import asyncio
import sys

import plumpy
from plumpy import ProcessState, ToContext, WorkChain


async def spin(predicate, rounds=300):
    for _ in range(rounds):
        if predicate():
            return True
        await asyncio.sleep(0)
    return predicate()


def simple_workchain(keys=('a',)):
    class Wc(WorkChain):
        seen = None

        @classmethod
        def define(cls, spec):
            super().define(spec)
            spec.outline(cls.submit, cls.inspect)

        def submit(self):
            self.futs = {key: self.loop.create_future() for key in keys}
            return ToContext(**self.futs)

        def inspect(self):
            self.seen = dict(vars(self.ctx))

    return Wc


async def check_completion_then_pause(fail):
    wc = simple_workchain()()
    task = asyncio.ensure_future(wc.step_until_terminated())
    assert await spin(lambda: wc.state == ProcessState.WAITING)

    # Both calls are made between the same two event-loop callbacks
    error = ValueError('boom')
    if fail:
        wc.futs['a'].set_exception(error)
    else:
        wc.futs['a'].set_result(1)
    wc.pause()

    assert await spin(lambda: wc.paused)
    wc.play()
    terminated = await spin(wc.has_terminated)
    if not terminated:
        task.cancel()
        return f'workchain stuck in {wc.state} after play(); awaited future done={wc.futs["a"].done()}'
    if fail:
        if wc.state != ProcessState.EXCEPTED or wc.exception() is not error:
            return f'ended {wc.state} / {wc.exception()!r}'
    elif wc.seen != {'a': 1}:
        return f'next step saw {wc.seen}'
    return None


async def check_same_future_two_keys():
    class Wc(WorkChain):
        seen = None

        @classmethod
        def define(cls, spec):
            super().define(spec)
            spec.outline(cls.submit, cls.inspect)

        def submit(self):
            self.fut = self.loop.create_future()
            return ToContext(a=self.fut, b=self.fut)

        def inspect(self):
            self.seen = dict(vars(self.ctx))

    wc = Wc()
    task = asyncio.ensure_future(wc.step_until_terminated())
    assert await spin(lambda: wc.state == ProcessState.WAITING)
    wc.fut.set_result(7)
    assert await spin(wc.has_terminated)
    await task
    if wc.seen != {'a': 7, 'b': 7}:
        return f'next step saw {wc.seen}, expected the result under both keys'
    return None


async def check_cancelled_child():
    class Child(plumpy.Process):
        def run(self):
            return plumpy.Wait(self.finish)

        def finish(self):
            pass

    class Wc(WorkChain):
        ran_next = False

        @classmethod
        def define(cls, spec):
            super().define(spec)
            spec.outline(cls.submit, cls.inspect)

        def submit(self):
            self.child = self.launch(Child)
            return ToContext(a=self.child)

        def inspect(self):
            type(self).ran_next = True

    wc = Wc()
    task = asyncio.ensure_future(wc.step_until_terminated())
    assert await spin(lambda: wc.state == ProcessState.WAITING and wc.child.state == ProcessState.WAITING)
    wc.child.future().cancel()  # kills the child
    assert await spin(wc.child.killed), wc.child.state
    terminated = await spin(wc.has_terminated)
    if not terminated:
        task.cancel()
        return f'child is {wc.child.state} but the workchain is stuck in {wc.state}'
    if wc.state != ProcessState.EXCEPTED or Wc.ran_next:
        return f'ended {wc.state}, ran_next={Wc.ran_next}'
    return None


def main():
    loop = asyncio.new_event_loop()
    asyncio.set_event_loop(loop)
    loop.set_exception_handler(lambda _loop, ctx: print('   (loop callback raised: %r)' % (ctx.get('exception'),)))
    checks = [
        ('completion then pause() in the same loop iteration', lambda: check_completion_then_pause(False)),
        ('failure then pause() in the same loop iteration', lambda: check_completion_then_pause(True)),
        ('same future under two keys', check_same_future_two_keys),
        ('awaited child killed through cancellation of its future', check_cancelled_child),
    ]
    failures = 0
    for name, check in checks:
        problem = loop.run_until_complete(check())
        print(f'{"VIOLATED" if problem else "ok      "} {name}' + (f': {problem}' if problem else ''))
        failures += bool(problem)
    assert failures == 0, f'{failures} barrier violation(s) on this tree'


if __name__ == '__main__':
    main()
    sys.exit(0)
