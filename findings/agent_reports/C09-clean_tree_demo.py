# -*- coding: utf-8 -*-
"""Pre-existing (clean tree) violations of "a WorkChain executes its outline as the structured program it denotes".

Three independent cases, each checked separately; the script exits 1 if any of them is violated (all three are on the
clean tree) and 0 if none is.

A. a step that happens to be called ``run`` replaces the entry point of the process: the outline is never stepped
B. after a save/load round trip a step is looked up BY NAME on the class of the chain, so an outline that names a
   function which is not ``getattr(cls, fn.__name__)`` (e.g. ``Base.work`` in a subclass that overrides ``work``)
   calls a different function once reloaded
C. ``_IfStepper`` keeps its evaluation cursor in the persisted ``_pos`` but restarts the scan of the conditions from
   the first one: a chain saved while an ``elif_`` predicate is being evaluated takes the wrong branch when loaded
"""

import sys

import plumpy
from plumpy import WorkChain, if_

LOG = []
FAILURES = []


def expect(what, got, expected):
    if got != expected:
        FAILURES.append(f'{what}:\n    expected {expected!r}\n    got      {got!r}')


# --- A ---------------------------------------------------------------------------------------------------------------
class RunStep(WorkChain):
    @classmethod
    def define(cls, spec):
        super().define(spec)
        spec.outline(cls.prepare, cls.run, cls.check)

    def prepare(self):
        LOG.append('prepare')

    def run(self):
        LOG.append('run')

    def check(self):
        LOG.append('check')
        return 'checked'


def case_a():
    del LOG[:]
    proc = RunStep()
    proc.execute()
    expect('A: call order of outline(prepare, run, check)', list(LOG), ['prepare', 'run', 'check'])
    expect('A: result', proc.result(), 'checked')


# --- B ---------------------------------------------------------------------------------------------------------------
class Base(WorkChain):
    @classmethod
    def define(cls, spec):
        super().define(spec)
        spec.outline(cls.begin, cls.work, cls.end)

    def begin(self):
        LOG.append('begin')

    def work(self):
        LOG.append('Base.work')

    def end(self):
        LOG.append('end')


class Sub(Base):
    @classmethod
    def define(cls, spec):
        super().define(spec)
        # First the inherited behaviour, then the specialised one
        spec.outline(cls.begin, Base.work, cls.work, cls.end)

    def work(self):
        LOG.append('Sub.work')


class Snapshots(plumpy.ProcessListener):
    def __init__(self):
        super().__init__()
        self.taken = []

    def on_process_running(self, process):
        self.taken.append((plumpy.Bundle(process, dereference=True), len(LOG)))


def case_b():
    del LOG[:]
    snapshots = Snapshots()
    proc = Sub()
    proc.add_process_listener(snapshots)
    proc.execute()
    reference = list(LOG)
    expect('B: uninterrupted call order', reference, ['begin', 'Base.work', 'Sub.work', 'end'])
    for index, (bundle, done) in enumerate(snapshots.taken):
        del LOG[:]
        bundle.unbundle().execute()
        expect(f'B: calls of the chain reloaded from bundle #{index}', list(LOG), reference[done:])


# --- C ---------------------------------------------------------------------------------------------------------------
BUNDLES = []


class SavedInPredicate(WorkChain):
    @classmethod
    def define(cls, spec):
        super().define(spec)
        spec.outline(cls.begin, if_(cls.p1)(cls.b1).elif_(cls.p2)(cls.b2).else_(cls.b3), cls.end)

    def begin(self):
        LOG.append('begin')

    def p1(self):
        LOG.append('p1')
        return False

    def p2(self):
        LOG.append('p2')
        BUNDLES.append(plumpy.Bundle(self, dereference=True))  # e.g. a persister checkpoint
        return True

    def b1(self):
        LOG.append('b1')

    def b2(self):
        LOG.append('b2')

    def b3(self):
        LOG.append('b3')

    def end(self):
        LOG.append('end')


def case_c():
    del LOG[:]
    SavedInPredicate().execute()
    expect('C: uninterrupted call order', list(LOG), ['begin', 'p1', 'p2', 'b2', 'end'])
    bundle = BUNDLES[0]
    del LOG[:]
    bundle.unbundle().execute()
    # The step in flight is redone, so the predicates are evaluated again -- but p1 is false and p2 is true: the
    # branch to take is b2 (the first branch whose predicate is true), never the else_ branch
    executed_branches = [name for name in LOG if name in ('b1', 'b2', 'b3')]
    expect('C: branch taken by the reloaded chain', executed_branches, ['b2'])


if __name__ == '__main__':
    case_a()
    case_b()
    case_c()
    if FAILURES:
        print('\n'.join(FAILURES))
        sys.exit(1)
    print('clean_tree_demo: nothing found')
