# -*- coding: utf-8 -*-
"""Two ways in which the CLEAN tree does not reproduce the uninterrupted execution after a restore.

Finding 1: a (dereferenced) ``Bundle`` that is loaded and continued twice.  ``unbundle`` hands the values stored in the
    bundle to the new process without copying them (the ``ctx`` entries, the ``args`` of the saved state), so the first
    continuation changes the checkpoint and the second continuation starts from a different state.

Finding 2: a WAITING checkpoint loaded with ``LoadSaveContext(loop=fresh_loop)`` while another loop is the thread's
    current event loop.  ``Waiting.load_instance_state`` (and ``Waiting.__init__``) create the future that ``resume``
    resolves with ``futures.Future()``, i.e. bound to ``asyncio.get_event_loop()`` and not to the loop of the process,
    so the restored process excepts as soon as it waits for the resume value in its own loop.

Exits non-zero (AssertionError) on the clean tree.
"""

import asyncio
import copy

import plumpy
from plumpy import WorkChain


class TraceChain(WorkChain):
    @classmethod
    def define(cls, spec):
        super().define(spec)
        spec.outline(cls.s1, cls.s2, cls.s3)

    def s1(self):
        self.ctx.trace = ['s1']

    def s2(self):
        self.ctx.trace.append('s2')

    def s3(self):
        self.ctx.trace.append('s3')
        return len(self.ctx.trace)


class WaitForValue(plumpy.Process):
    def run(self):
        return plumpy.Wait(self.after, 'waiting for a value')

    def after(self, value):
        return value * 2


def finding_1():
    loop = asyncio.new_event_loop()
    asyncio.set_event_loop(loop)

    reference = TraceChain(loop=loop)
    loop.run_until_complete(reference.step_until_terminated())
    expected = (reference.result(), list(reference.ctx.trace))

    proc = TraceChain(loop=loop)
    for _ in range(2):  # CREATED -> RUNNING, then ``s1``
        loop.run_until_complete(proc.step())
    bundle = plumpy.Bundle(proc, dereference=True)  # the checkpoint after ``s1``
    pristine = copy.deepcopy(dict(bundle))

    problems = []
    for attempt in (1, 2):
        restored = bundle.unbundle(plumpy.LoadSaveContext(loop=loop))
        loop.run_until_complete(restored.step_until_terminated())
        got = (restored.result(), list(restored.ctx.trace))
        print(f'finding 1, continuation {attempt}: result, trace = {got}; checkpoint unchanged: {dict(bundle) == pristine}')
        if got != expected:
            problems.append(f'continuation {attempt} of the same checkpoint gave {got}, uninterrupted run gave {expected}')
    loop.close()
    return problems


def finding_2():
    old_loop = asyncio.new_event_loop()
    asyncio.set_event_loop(old_loop)

    proc = WaitForValue(loop=old_loop)
    for _ in range(2):  # CREATED -> RUNNING -> WAITING
        old_loop.run_until_complete(proc.step())
    assert proc.state == plumpy.ProcessState.WAITING
    bundle = plumpy.Bundle(proc, dereference=True)

    # reference: the instance that was checkpointed carries on in its loop
    old_loop.call_later(0.05, proc.resume, 5)
    old_loop.run_until_complete(proc.step_until_terminated())
    expected = (proc.state, proc.result())

    # restore in a fresh loop that is passed through the load context (the old one is still the current loop)
    fresh_loop = asyncio.new_event_loop()
    restored = bundle.unbundle(plumpy.LoadSaveContext(loop=fresh_loop))
    assert restored.loop is fresh_loop
    fresh_loop.call_later(0.05, restored.resume, 5)
    fresh_loop.run_until_complete(restored.step_until_terminated())
    got = (restored.state, restored.result() if restored.state == plumpy.ProcessState.FINISHED else restored.exception())
    print(f'finding 2: restored process ended as {got}')
    fresh_loop.close()
    old_loop.close()
    if got != expected:
        return [f'restored process ended as {got}, the uninterrupted one as {expected}']
    return []


if __name__ == '__main__':
    problems = finding_1() + finding_2()
    for problem in problems:
        print('PROBLEM:', problem)
    assert not problems, f'{len(problems)} violation(s) of the resume property on this tree'
    print('OK')
