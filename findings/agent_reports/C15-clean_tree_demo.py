# -*- coding: utf-8 -*-
"""Clean-tree findings for the "exposing ports" property. Exits non-zero on the clean worktree.

Each check is independent; all of them are evaluated and reported before the script exits.
"""

import sys

from plumpy import Process
from plumpy.ports import PortNamespace
from plumpy.process_spec import ProcessSpec

failures = []


def check(name, condition, detail):
    print(('ok      ' if condition else 'VIOLATED') + f' {name}' + ('' if condition else f': {detail}'))
    if not condition:
        failures.append(name)


class Child(Process):
    @classmethod
    def define(cls, spec):
        super().define(spec)
        spec.input('a', default=1)
        spec.input('ns.y', default=2)
        spec.output('a')
        spec.output('ns.y')


# 1. An empty include rule set selects nothing, yet everything is exposed (``if include and ...`` treats an empty
#    sequence like ``None``).
class EmptyInclude(Process):
    @classmethod
    def define(cls, spec):
        super().define(spec)
        spec.expose_inputs(Child, namespace='child', include=())


exposed = sorted(EmptyInclude.spec().inputs['child'])
check('empty include rule set exposes nothing', exposed == [], f'exposed {exposed}')


# 2. ``absorb`` pops the overrides out of the caller's ``namespace_options`` dictionary, so using the same dictionary
#    for a second exposure (typically expose_inputs followed by expose_outputs) silently ignores the overrides.
class SharedOptions(Process):
    @classmethod
    def define(cls, spec):
        super().define(spec)
        options = {'required': False, 'help': 'the child'}
        spec.expose_inputs(Child, namespace='child', namespace_options=options)
        spec.expose_outputs(Child, namespace='child', namespace_options=options)


spec = SharedOptions.spec()
check(
    'namespace options applied on every exposure they are passed to',
    (spec.inputs['child'].required, spec.outputs['child'].required) == (False, False)
    and spec.outputs['child'].help == 'the child',
    f"inputs.child.required={spec.inputs['child'].required}, outputs.child.required={spec.outputs['child'].required}, "
    f"outputs.child.help={spec.outputs['child'].help!r}",
)


# 3. A destination port that lives in a namespace with the same name as an exposed source namespace is dropped: the
#    destination namespace is replaced wholesale instead of receiving the selected ports.
class OwnNested(Process):
    @classmethod
    def define(cls, spec):
        super().define(spec)
        spec.input('ns.own', default=0)
        spec.input('other', default=0)
        spec.expose_inputs(Child)


ports = sorted(OwnNested.spec().inputs['ns'])
check('other ports of the destination stay in place', ports == ['own', 'y'], f'inputs.ns now has {ports}')

# 4. The properties are copied through the setters in alphabetical order, and the ``valid_type`` setter forces
#    ``dynamic = True``: a source namespace with a valid type that was explicitly made non-dynamic comes out dynamic.
source = PortNamespace('source', valid_type=int)
source.dynamic = False
destination = PortNamespace('destination')
destination.absorb(source)
check(
    'destination takes the properties of the source namespace',
    destination.dynamic == source.dynamic,
    f'source.dynamic={source.dynamic}, destination.dynamic={destination.dynamic}',
)

# 5. ``exclude=()`` together with ``include`` is rejected by ``absorb`` only, i.e. after ``_expose_ports`` created the
#    target namespace: the rejected call leaves a new (empty) namespace behind in the destination.
source_spec = ProcessSpec()
source_spec.input('a')
destination_spec = ProcessSpec()
try:
    destination_spec._expose_ports(
        None, source_spec.inputs, destination_spec.inputs, destination_spec._exposed_inputs, 'target', (), ('a',)
    )
except ValueError:
    rejected = True
else:
    rejected = False
check(
    'rejected include+exclude leaves the destination untouched',
    rejected and list(destination_spec.inputs) == [],
    f'rejected={rejected}, destination ports afterwards: {list(destination_spec.inputs)}',
)

sys.exit(1 if failures else 0)
