"""Clean-tree findings for: "A step's return value alone decides what happens next, with exact arguments".

Each check below is independent; the script prints every violated check and exits non-zero if any is violated.
Run: cd /tmp/seed3/C13 && PYTHONPATH=/tmp/seed3/C13/src /venv/bin/python seed/clean_tree_demo.py
"""

import asyncio
import sys
import unittest.mock

import plumpy
from plumpy import process_states as ps


class WaitProc(plumpy.Process):
    """run -> Wait(after) -> [resume(v)] -> after(v) -> finish with the received args"""

    def run(self):
        return ps.Wait(self.after, msg='waiting')

    def after(self, *args):
        return {'args': args}


async def until_waiting(proc):
    while proc.state != ps.ProcessState.WAITING:
        await asyncio.sleep(0)
    await asyncio.sleep(0.01)  # the step is now blocked on the waiting future


async def finding_1_pause_then_resume():
    """pause() immediately followed by resume(v) (same event-loop callback, i.e. before the stepping task has
    handled the pause interruption): the resume is silently dropped.  After play() the process waits forever."""
    proc = WaitProc()
    task = asyncio.ensure_future(proc.step_until_terminated())
    await until_waiting(proc)

    proc.pause()  # interrupts the in-flight waiting step: sets PauseInterruption on the waiting future
    proc.resume(5)  # sees a 'done' future and returns without storing the value
    await asyncio.sleep(0.01)
    assert proc.paused
    proc.play()
    try:
        await asyncio.wait_for(asyncio.shield(task), 0.5)
    except asyncio.TimeoutError:
        state = proc.state
        proc.kill()
        await task
        raise AssertionError(f'resume(5) issued right after pause() was lost: still {state} after play()')
    assert proc.result() == {'args': (5,)}, proc.result()


async def finding_2_cancel_pause_future():
    """pause() during a step returns a ``CancellableAction``; cancelling it (instead of calling play()) makes the
    step blow up with InvalidStateError('Action has already been ran') when it completes: the step's return value
    is thrown away, the stepping task dies and the process stays in the state of the step that already ran."""

    class TwoSteps(plumpy.Process):
        ran = ()

        async def run(self):
            self.ran += ('run',)
            await asyncio.sleep(0.02)
            return ps.Continue(self.second, 1, k=2)

        def second(self, *args, **kwargs):
            self.ran += ('second',)
            return {'args': args, 'kwargs': kwargs}

    proc = TwoSteps()
    task = asyncio.ensure_future(proc.step_until_terminated())
    await asyncio.sleep(0.01)  # inside run()
    action = proc.pause()
    assert isinstance(action, plumpy.futures.CancellableAction)
    action.cancel()  # changed our mind
    try:
        await asyncio.wait_for(task, 1)
    except Exception as exc:
        raise AssertionError(
            f'cancelling the pause action lost the return value of run(): stepping raised {exc!r}, '
            f'state={proc.state}, steps ran={proc.ran}'
        )
    assert proc.ran == ('run', 'second'), proc.ran
    assert proc.result() == {'args': (1,), 'kwargs': {'k': 2}}


async def finding_3_cancelled_stepper_poisons_wait():
    """Cancelling the task that drives a WAITING process (e.g. ``asyncio.wait_for(proc.step_until_terminated(), t)``
    timing out) cancels the state's waiting future.  From then on resume(v) is ignored and stepping the process
    again raises CancelledError: f(v) can never run."""
    proc = WaitProc()
    try:
        await asyncio.wait_for(proc.step_until_terminated(), 0.05)
    except asyncio.TimeoutError:
        pass
    assert proc.state == ps.ProcessState.WAITING
    proc.resume(7)
    try:
        await asyncio.wait_for(proc.step_until_terminated(), 0.5)
    except BaseException as exc:  # CancelledError is a BaseException
        raise AssertionError(f'after a cancelled stepping task, resume(7) + stepping again gave {exc!r} ({proc.state})')
    assert proc.result() == {'args': (7,)}, proc.result()


async def finding_4_reserved_keyword_names():
    """Continue(f, **k) is documented as 'f(*a, **k) is the next step', but keyword names that collide with the
    parameters of the state factory chain (``state_label`` of create_state, ``process`` / ``run_fn`` of
    Running.__init__) never reach f: the process ends EXCEPTED with a TypeError."""
    problems = []
    for name in ('state_label', 'process', 'run_fn', 'label', 'tag'):

        class KwProc(plumpy.Process):
            kwname = name

            def run(self):
                return ps.Continue(self.second, **{self.kwname: 42})

            def second(self, **kwargs):
                return kwargs

        proc = KwProc()
        await proc.step_until_terminated()
        if proc.state != ps.ProcessState.FINISHED or proc.result() != {name: 42}:
            problems.append(f'{name}= -> {proc.state.value} ({proc.exception()!r})')
    assert not problems, 'Continue(f, <kw>=42) did not run f(<kw>=42): ' + '; '.join(problems)


async def finding_5_resume_value_equal_to_everything():
    """Waiting.execute decides between f() and f(v) with ``result == NULL``, which asks *v* first: a resume value whose
    __eq__ answers True to everything (unittest.mock.ANY) is taken for 'no value' and f() runs instead of f(v)."""
    proc = WaitProc()
    task = asyncio.ensure_future(proc.step_until_terminated())
    await until_waiting(proc)
    proc.resume(unittest.mock.ANY)
    await asyncio.wait_for(task, 1)
    got = proc.result()['args']
    assert len(got) == 1 and got[0] is unittest.mock.ANY, f'resume(mock.ANY) ran after{got!r} instead of after(ANY)'


async def main():
    failed = 0
    for check in (
        finding_1_pause_then_resume,
        finding_2_cancel_pause_future,
        finding_3_cancelled_stepper_poisons_wait,
        finding_4_reserved_keyword_names,
        finding_5_resume_value_equal_to_everything,
    ):
        try:
            await check()
        except AssertionError as exc:
            failed += 1
            print(f'VIOLATED {check.__name__}: {exc}')
        else:
            print(f'ok       {check.__name__}')
    return failed


if __name__ == '__main__':
    sys.exit(1 if asyncio.run(main()) else 0)
