# -*- coding: utf-8 -*-
"""Pre-existing (clean tree) deviations from the "outputs are stored only if valid" property.

Run as: cd /tmp/seed3/C12 && PYTHONPATH=/tmp/seed3/C12/src /venv/bin/python seed/clean_tree_demo.py
Exits non-zero on the clean tree. See clean_tree_finding.md.
"""

import sys

import plumpy


def run(define_fn, emits):
    class P(plumpy.Process):
        @classmethod
        def define(cls, spec):
            super().define(spec)
            define_fn(spec)

        def run(self):
            self.log = []
            for path, value in emits:
                before = repr(self.outputs)
                try:
                    self.out(path, value)
                    self.log.append('stored')
                except Exception as exc:
                    self.log.append(type(exc).__name__)
                    assert repr(self.outputs) == before
            return 'r'

    proc = P()
    proc.execute()
    return proc


def typed_dynamic(spec):
    spec.outputs.dynamic = True
    spec.outputs.valid_type = int


problems = []


def check(label, condition, proc):
    print(('ok      ' if condition else 'PROBLEM ') + label, '| log:', proc.log, '| outputs:', proc.outputs,
          '| successful:', proc.is_successful)
    if not condition:
        problems.append(label)


# 1. The empty tuple is the UNSPECIFIED sentinel (`UNSPECIFIED = ()`, compared with `is`): it bypasses type and
#    validator checks of an optional port, is stored, reported by the future, and the process is successful.
p = run(lambda s: s.output('n', valid_type=int, required=False), [('n', ())])
check('1a out(int port, ()) is rejected', p.log == ['ValueError'] and p.outputs == {}, p)
p = run(lambda s: s.output('n', required=False, validator=lambda value, port: 'never valid'), [('n', ())])
check('1b out(port with always-failing validator, ()) is rejected', p.log == ['ValueError'] and p.outputs == {}, p)

# 2. Any falsy non-mapping value is accepted as the value of a port *namespace* (`if not port_values: port_values = {}`
#    runs before the Mapping check) and stored in place of the namespace; later nested emission then dies with TypeError.
p = run(lambda s: s.output('ns.a', valid_type=int, required=False), [('ns', 0), ('ns.a', 1)])
check('2a out(namespace, 0) is rejected', p.log[0] == 'ValueError', p)
check('2b out(ns.a, 1) is stored', p.log[1] == 'stored' and p.outputs == {'ns': {'a': 1}}, p)

# 3. A *rejected* out() still mutates the (class level, shared) spec: the dynamically created namespace stays behind,
#    so the same value on the same port is accepted or refused depending on an earlier rejected call.
p_fresh = run(typed_dynamic, [('a', 5)])
p_hist = run(typed_dynamic, [('a.b', 'bad'), ('a', 5)])
check('3  out(a, 5) accepted on a fresh spec', p_fresh.log == ['stored'], p_fresh)
check('3  out(a, 5) equally accepted after a rejected out(a.b, "bad")', p_hist.log == ['ValueError', 'stored'], p_hist)

# 4. Emitting below a plain port is refused with TypeError, not ValueError.
p = run(lambda s: s.output('a', required=False), [('a.b', 1)])
check('4  out(a.b) below a leaf port raises ValueError', p.log == ['ValueError'], p)

if problems:
    print(f'\n{len(problems)} deviation(s) on this tree')
    sys.exit(1)
sys.exit(0)
