# -*- coding: utf-8 -*-
"""Clean-tree finding: the future returned by ``plumpy.futures.create_task`` never completes when the
scheduled coroutine ends by cancellation (``asyncio.CancelledError``), e.g. because the subscriber
awaited a loop future that somebody cancelled.  ``kiwipy.capture_exceptions`` only catches
``Exception`` and ``asyncio.CancelledError`` derives from ``BaseException`` (python >= 3.8), so the
outcome is delivered zero times: the loop future, and with it the communicator-side mirror, stay
pending for ever and the remote caller of the RPC/task waits indefinitely.
"""

import asyncio
import concurrent.futures
import sys
import threading

from plumpy import communications, futures


def main():
    loop = asyncio.new_event_loop()
    problems = []

    # -- directly on the loop
    async def direct():
        awaited = loop.create_future()

        async def subscriber():
            return await awaited

        task_future = futures.create_task(subscriber, loop)
        await asyncio.sleep(0.05)
        awaited.cancel()  # the thing the subscriber waits for is cancelled -> the coroutine ends, cancelled
        await asyncio.wait([task_future], timeout=1)
        if not task_future.done():
            problems.append('create_task future still pending after the scheduled coroutine has ended (cancelled)')

    loop.run_until_complete(direct())

    # -- through the communicator adapter, from a non-loop thread
    thread = threading.Thread(target=loop.run_forever, daemon=True)
    thread.start()
    try:
        holder = {}

        async def subscriber(_comm, _msg):
            holder['awaited'] = loop.create_future()
            return await holder['awaited']

        kiwi_future = communications.convert_to_comm(subscriber, loop)(None, 'msg')
        while 'awaited' not in holder:
            pass
        loop.call_soon_threadsafe(holder['awaited'].cancel)
        try:
            kiwi_future.exception(timeout=1)
        except concurrent.futures.CancelledError:
            pass  # would be a faithful outcome
        except concurrent.futures.TimeoutError:
            problems.append('communicator-side future never completes: the remote caller hangs')
    finally:
        loop.call_soon_threadsafe(loop.stop)
        thread.join(5)

    for problem in problems:
        print('PROBLEM:', problem)
    assert not problems, 'outcome of a cancelled scheduled coroutine is never delivered'


if __name__ == '__main__':
    main()
    sys.exit(0)
