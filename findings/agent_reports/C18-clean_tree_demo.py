# -*- coding: utf-8 -*-
"""Clean-tree finding: state-transition hooks (on_entered / on_exiting / on_run / on_finish / on_finished /
on_terminated, process listeners ...) of a process do NOT run with Process.current() being that process.

``Process.step`` only wraps ``self._state.execute`` in ``_run_task`` (=> ``_process_scope``); the following
``self.transition_to(next_state)`` -- which fires all of the hooks -- happens after the scope was left.  So:

  * for a top-level process, current() is None inside its hooks;
  * for a process executed re-entrantly from a step of another process (or launched from it), current() inside
    the *child's* hooks is the *parent*.

Exits non-zero on the clean tree.
"""

import sys

import plumpy
from plumpy import Process, ProcessState

failures = []


def check(label, condition, detail=''):
    print(('ok   ' if condition else 'FAIL ') + label + (f'  [{detail}]' if detail and not condition else ''))
    if not condition:
        failures.append(label)


class Recorder(Process):
    def __init__(self, *args, **kwargs):
        super().__init__(*args, **kwargs)
        self.seen = []

    def on_run(self):
        super().on_run()
        self.seen.append(('on_run', Process.current()))

    def on_finish(self, result, successful):
        super().on_finish(result, successful)
        self.seen.append(('on_finish', Process.current()))

    def on_finished(self):
        super().on_finished()
        self.seen.append(('on_finished', Process.current()))

    def on_terminated(self):
        super().on_terminated()
        self.seen.append(('on_terminated', Process.current()))

    def run(self):
        self.seen.append(('run', Process.current()))
        return 5


class Parent(Process):
    child = None

    def run(self):
        self.child = Recorder()
        self.child.execute()


def main():
    plumpy.set_event_loop_policy()

    top = Recorder()
    top.execute()
    assert top.state == ProcessState.FINISHED
    for name, current in top.seen:
        check(f'top-level: current() is the process inside {name}', current is top, f'current() = {current}')

    parent = Parent()
    parent.execute()
    assert parent.state == ProcessState.FINISHED
    child = parent.child
    for name, current in child.seen:
        check(f'nested: current() is the child inside its {name}', current is child, f'current() = {current}')

    if failures:
        print(f'\n{len(failures)} check(s) failed')
        sys.exit(1)
    print('\nall checks passed')


if __name__ == '__main__':
    main()
