# -*- coding: utf-8 -*-
"""Clean-tree finding: a process that was close()d while still live can still be killed, and that kill reaches
the KILLED state without resolving the future and without notifying the listeners.

``Process.close()`` is public ("indicates that this process should not ran anymore ... The state of the process will
still be accessible. It is safe to call this method multiple times"); it is what a runner does with the processes it
holds when it shuts down.  ``on_close`` drops all state-event hooks (``self._event_callbacks = {}``), and
``Process.kill()`` is not guarded by ``ensure_not_closed``: the later transition to KILLED fires no hooks, so
``on_kill`` / ``on_killed`` never run.

Exits non-zero on the clean tree.
"""

import asyncio

from plumpy import Process, ProcessState, process_states
from plumpy.process_listener import ProcessListener


class Recorder(ProcessListener):
    def __init__(self):
        super().__init__()
        self.terminal = []

    def on_process_killed(self, process, msg):
        self.terminal.append(('killed', msg['message']))


class Waits(Process):
    def run(self):
        return process_states.Wait(self.after)

    def after(self):
        return 1


def main():
    loop = asyncio.get_event_loop()
    proc = Waits()
    listener = Recorder()
    proc.add_process_listener(listener)

    async def run():
        task = loop.create_task(proc.step_until_terminated())
        while proc.state != ProcessState.WAITING:
            await asyncio.sleep(0)
        await proc.pause()  # the runner parks the process ...
        proc.close()  # ... and releases its resources
        assert proc.kill('stop it') is True  # a kill request still gets through
        for _ in range(10):
            await asyncio.sleep(0)
        task.cancel()

    loop.run_until_complete(run())

    # all of these agree on KILLED ...
    assert proc.state == ProcessState.KILLED
    assert proc.killed() and proc.has_terminated()
    assert proc.killed_msg()['message'] == 'stop it'
    # ... but the future was never resolved and nobody was told
    problems = []
    if not proc.future().done():
        problems.append('the process is KILLED but its future is still pending')
    if listener.terminal != [('killed', 'stop it')]:
        problems.append(f'listener notifications: {listener.terminal}')
    assert not problems, '; '.join(problems)
    print('OK')


if __name__ == '__main__':
    main()
