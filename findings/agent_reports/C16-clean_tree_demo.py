# -*- coding: utf-8 -*-
"""Clean-tree findings for 'remote control equals direct control / a terminated process receives no messages'.

Exits non-zero on the CLEAN tree.

Finding A: an RPC ``pause`` that arrives while a step is in flight is answered with a future that resolves once the
    pause has been enacted.  If the pause is then called off (a ``play``, or a ``kill`` that replaces the pending
    interrupt action) the direct call's reply (the ``CancellableAction``) ends up *cancelled*, but the remote reply
    never completes at all: ``_schedule_rpc.run_callback`` awaits the cancelled action, ``asyncio.CancelledError`` is a
    ``BaseException`` so ``kiwipy.capture_exceptions`` does not see it, the task dies silently and the kiwi future
    stays pending for ever (a ``RemoteProcessController.pause_process`` caller hangs).

Finding B: a process that is re-created from a bundle saved in a terminal state subscribes (in ``init``) to RPC and
    broadcast messages and never un-subscribes, because ``on_terminated``/``close`` only run on a transition *into* a
    terminal state.  So a terminated process does receive messages after a save/load round trip.
"""

import asyncio
import sys

import kiwipy

import plumpy
from plumpy.process_comms import MessageBuilder


class Sleeper(plumpy.Process):
    async def run(self):
        await asyncio.sleep(0.1)
        return 'done'


class Recording(plumpy.Process):
    received = None

    def run(self):
        return 'done'

    def broadcast_receive(self, _comm, msg, sender, subject, correlation_id):
        self.received = (self.received or []) + [subject]
        return super().broadcast_receive(_comm, msg, sender, subject, correlation_id)

    def message_receive(self, _comm, msg):
        self.received = (self.received or []) + [msg['intent']]
        return super().message_receive(_comm, msg)


async def settle():
    for _ in range(20):
        await asyncio.sleep(0)


def finding_a(call_off):
    loop = asyncio.new_event_loop()
    asyncio.set_event_loop(loop)
    communicator = kiwipy.LocalCommunicator()
    remote = Sleeper(communicator=communicator, loop=loop)
    twin = Sleeper(loop=loop)
    out = {}

    async def main():
        tasks = [loop.create_task(remote.step_until_terminated()), loop.create_task(twin.step_until_terminated())]
        await settle()
        assert remote.state == twin.state == plumpy.ProcessState.RUNNING

        # pause while the step is in flight: remote through RPC, twin directly when the handler runs
        remote_pause = communicator.rpc_send(str(remote.pid), MessageBuilder.pause('hold'))
        await settle()
        direct_pause = twin.pause('hold')

        # ... and call it off again
        if call_off == 'play':
            communicator.rpc_send(str(remote.pid), MessageBuilder.play())
            await settle()
            twin.play()
        else:
            communicator.rpc_send(str(remote.pid), MessageBuilder.kill('stop'))
            await settle()
            twin.kill('stop')

        await asyncio.wait(tasks, timeout=2)
        await settle()
        out['direct'] = direct_pause
        out['remote'] = remote_pause.result(timeout=1)

    loop.run_until_complete(main())
    loop.close()
    direct, remote_reply = out['direct'], out['remote']
    print(f'[A/{call_off}] final states: remote={remote.state} twin={twin.state}')
    print(f'[A/{call_off}] direct pause reply: {direct!r}')
    print(f'[A/{call_off}] remote pause reply: {remote_reply!r}')
    if direct.done() and not remote_reply.done():
        return [f'A/{call_off}: direct reply completed (cancelled={direct.cancelled()}), remote reply never completes']
    return []


def finding_b():
    loop = asyncio.new_event_loop()
    asyncio.set_event_loop(loop)
    original = Recording(loop=loop)
    original.execute()
    bundle = plumpy.Bundle(original)

    communicator = kiwipy.LocalCommunicator()
    loaded = bundle.unbundle(plumpy.LoadSaveContext(loop=loop, communicator=communicator))
    assert loaded.has_terminated()

    communicator.broadcast_send(MessageBuilder.kill('late'), subject='kill')
    try:
        communicator.rpc_send(str(loaded.pid), MessageBuilder.status())
    except kiwipy.UnroutableError:
        pass
    loop.run_until_complete(settle())
    loop.close()
    print(f'[B] loaded process state={loaded.state}, messages received although terminated: {loaded.received}')
    if loaded.received:
        return [f'B: terminated (re-loaded) process received {loaded.received}']
    return []


if __name__ == '__main__':
    problems = finding_a('play') + finding_a('kill') + finding_b()
    for problem in problems:
        print('CLEAN-TREE VIOLATION', problem)
    assert not problems
    print('OK')
    sys.exit(0)
