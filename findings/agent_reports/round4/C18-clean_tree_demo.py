"""CLEAN TREE: state-transition hooks of a process do not run with ``Process.current()`` being that process.

Only ``State.execute`` (i.e. ``run`` and continuations) and ``call_soon`` callbacks go through ``Process._run_task``
and therefore through ``Process._process_scope``.  ``Process.step`` performs the state transition *after*
``_run_task`` has returned, so every hook fired by a transition (on_run/on_running, on_wait/on_waiting,
on_finish/on_finished, on_except/on_excepted, on_kill/on_killed, on_terminated, on_pausing/on_paused, on_playing,
on_exit_*) runs outside the scope:

* for a top level process ``Process.current()`` is ``None`` inside its hooks;
* for a child executed re-entrantly (or launched) from a parent's step, it is the *parent* inside the child's hooks;
* for a process killed/paused/played from another process's step, it is that other process.

Exits non-zero on the clean tree.
"""
import sys

import plumpy
from plumpy import Process

plumpy.set_event_loop_policy()

observed = []


class Hooked(Process):
    def on_run(self):
        super().on_run()
        observed.append((self, 'on_run', Process.current()))

    def run(self):
        observed.append((self, 'run', Process.current()))

    def on_finish(self, result, successful):
        super().on_finish(result, successful)
        observed.append((self, 'on_finish', Process.current()))

    def on_terminated(self):
        super().on_terminated()
        observed.append((self, 'on_terminated', Process.current()))


class Parent(Hooked):
    def run(self):
        super().run()
        self.child = Hooked()
        self.child.execute()
        observed.append((self, 'run-after-child', Process.current()))


parent = Parent()
parent.execute()

wrong = []
for proc, where, current in observed:
    name = 'parent' if proc is parent else 'child'
    cur = 'None' if current is None else ('parent' if current is parent else 'child')
    ok = current is proc
    print(f'{name:6s} {where:16s} Process.current() -> {cur:6s} {"ok" if ok else "WRONG"}')
    if not ok:
        wrong.append((name, where, cur))

assert parent.state == plumpy.ProcessState.FINISHED and parent.child.state == plumpy.ProcessState.FINISHED
assert not wrong, f'hooks ran with Process.current() not being their process: {wrong}'
print('OK')
sys.exit(0)
