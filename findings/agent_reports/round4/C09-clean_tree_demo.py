# -*- coding: utf-8 -*-
"""Three ways in which the CLEAN tree already departs from the outline property (see clean_tree_finding.md).

Every check prints what it observed; the script exits non-zero if at least one of them shows a violation.
"""

import asyncio
import sys

import plumpy
from plumpy.workchains import ToContext, WorkChain, if_

# ----------------------------------------------------------------------------------------------------------------------
# 1. A checkpoint taken while an ``elif_`` predicate is being evaluated resumes in the wrong branch
# ----------------------------------------------------------------------------------------------------------------------

TRACE = []
CHECKPOINTS = {}
SAVE_IN = [None]


class Branches(WorkChain):
    @classmethod
    def define(cls, spec):
        super().define(spec)
        spec.outline(
            if_(cls.p0)(cls.a).elif_(cls.p1)(cls.b).else_(cls.c),
            cls.end,
        )

    def _checkpoint(self, name):
        if SAVE_IN[0] == name:
            CHECKPOINTS[name] = plumpy.Bundle(self, dereference=True)

    def p0(self):
        TRACE.append('p0')
        return False

    def p1(self):
        TRACE.append('p1')
        self._checkpoint('p1')  # e.g. a persister saving the process, as steps do in the test-suite
        return True

    def a(self):
        TRACE.append('a')

    def b(self):
        TRACE.append('b')

    def c(self):
        TRACE.append('c')

    def end(self):
        TRACE.append('end')
        return 'result'


def check_checkpoint_in_predicate():
    del TRACE[:]
    SAVE_IN[0] = 'p1'
    original = Branches()
    original.execute()
    first = list(TRACE)

    del TRACE[:]
    SAVE_IN[0] = None
    reloaded = CHECKPOINTS['p1'].unbundle()
    reloaded.execute()
    second = list(TRACE)

    print('[1] original run         :', first)
    print('[1] continued from bundle:', second)
    # p0 is False and p1 is True, whenever they are evaluated: the branch to take is ``b``
    return first == ['p0', 'p1', 'b', 'end'] and 'c' not in second and 'b' in second


# ----------------------------------------------------------------------------------------------------------------------
# 2. An awaitable that completes in the same loop iteration in which a pause is requested: the chain never goes on
# ----------------------------------------------------------------------------------------------------------------------


class Waits(WorkChain):
    @classmethod
    def define(cls, spec):
        super().define(spec)
        spec.outline(cls.submit, cls.after)

    def submit(self):
        TRACE.append('submit')
        self.awaited = asyncio.get_event_loop().create_future()
        return ToContext(value=self.awaited)

    def after(self):
        TRACE.append(f'after:{self.ctx.value}')
        return 'finished'


async def _pause_race():
    del TRACE[:]
    chain = Waits()
    task = asyncio.ensure_future(chain.step_until_terminated())
    while chain.state != plumpy.ProcessState.WAITING:
        await asyncio.sleep(0)
    await asyncio.sleep(0.01)

    # In one and the same callback: the awaited future gets its result, and somebody asks for a pause
    chain.awaited.set_result(5)
    chain.pause()
    await asyncio.sleep(0.05)
    chain.play()

    try:
        await asyncio.wait_for(asyncio.shield(task), timeout=1.0)
    except asyncio.TimeoutError:
        print('[2] still', chain.state, 'one second after play(); paused =', chain.paused, '; trace =', TRACE)
        task.cancel()
        return False
    print('[2] finished with', chain.result(), TRACE)
    return chain.result() == 'finished'


def check_pause_race():
    loop = asyncio.get_event_loop()
    # (the ``InvalidStateError`` that asyncio reports for the done-callback is part of the finding: keep it quiet here)
    loop.set_exception_handler(lambda _loop, context: print('[2] loop reported:', repr(context.get('exception'))))
    try:
        return loop.run_until_complete(_pause_race())
    finally:
        loop.set_exception_handler(None)


# ----------------------------------------------------------------------------------------------------------------------
# 3. A step named explicitly in the outline is replaced by an override of the same name after a save/load round trip
# ----------------------------------------------------------------------------------------------------------------------


class Parent(WorkChain):
    @classmethod
    def define(cls, spec):
        super().define(spec)
        spec.outline(cls.first, cls.second)

    def first(self):
        TRACE.append('first')

    def second(self):
        TRACE.append('Parent.second')
        return 'parent'


class Child(Parent):
    @classmethod
    def define(cls, spec):
        super().define(spec)
        # explicitly the step of the parent class, not the one redefined below
        spec.outline(cls.first, Parent.second, cls.second)

    def second(self):
        TRACE.append('Child.second')
        return 'child'


def check_named_step():
    # Bundles taken by a listener each time the chain enters RUNNING, i.e. right before each instruction
    snapshots = []

    class Saver(plumpy.ProcessListener):
        def on_process_running(self, process):
            snapshots.append(plumpy.Bundle(process, dereference=True))

    del TRACE[:]
    saver = Saver()
    original = Child()
    original.add_process_listener(saver)
    original.execute()
    first = (list(TRACE), original.result())

    # snapshots[1] was taken when the second instruction (``Parent.second``) was about to be carried out
    del TRACE[:]
    continued = snapshots[1].unbundle()
    continued.execute()
    second = (list(TRACE), continued.result())

    print('[3] uninterrupted run    :', *first)
    print('[3] continued from bundle:', *second)
    return first == (['first', 'Parent.second'], 'parent') and second == (['Parent.second'], 'parent')


def main():
    asyncio.set_event_loop(asyncio.new_event_loop())
    outcomes = {
        'checkpoint taken inside an elif_ predicate': check_checkpoint_in_predicate(),
        'awaitable done + pause in one loop iteration': check_pause_race(),
        'explicitly named step after save/load': check_named_step(),
    }
    print()
    for name, fine in outcomes.items():
        print(f'{"ok      " if fine else "VIOLATED"} {name}')
    return 0 if all(outcomes.values()) else 1


if __name__ == '__main__':
    sys.exit(main())
