# -*- coding: utf-8 -*-
"""Inputs for which the CLEAN tree does not satisfy the expose property. Exits non-zero when any of them shows."""

import sys

from plumpy.process_spec import ProcessSpec


def expose(src, dst, **kwargs):
    kwargs.setdefault('namespace', None)
    kwargs.setdefault('exclude', None)
    kwargs.setdefault('include', None)
    ProcessSpec._expose_ports(
        process_class=None, source=src.inputs, destination=dst.inputs, expose_memory=dst._exposed_inputs, **kwargs
    )


def check_destination_sibling_dropped():
    """A port of the destination that lives in a namespace with the same name as a source namespace is dropped."""
    src = ProcessSpec()
    src.input('ns.a')
    dst = ProcessSpec()
    dst.input('ns.mine')
    expose(src, dst, include=('ns.a',))
    keys = sorted(dst.inputs['ns'].keys())
    return keys == ['a', 'mine'], f"destination 'ns' holds {keys}, expected ['a', 'mine']"


def check_dynamic_override_ignored():
    """`namespace_options={'dynamic': False}` is undone when the source namespace has a `valid_type`."""
    src = ProcessSpec()
    src.input('a')
    src.inputs.valid_type = int
    dst = ProcessSpec()
    expose(src, dst, namespace='n', namespace_options={'dynamic': False})
    return dst.inputs['n'].dynamic is False, f"dynamic={dst.inputs['n'].dynamic} although overridden with False"


def check_empty_include_selects_everything():
    """An empty include rule set selects no port, yet everything is exposed."""
    src = ProcessSpec()
    src.input('a')
    src.input('ns.b')
    dst = ProcessSpec()
    expose(src, dst, include=())
    keys = sorted(dst.inputs.keys())
    return keys == [], f'include=() exposed {keys}'


def check_namespace_default_shared():
    """The `default` of a namespace is handed over by reference (the default of a plain port is deep copied)."""
    src = ProcessSpec()
    src.input_namespace('ns', default={'k': 1})
    src.input('ns.b', required=False)
    dst = ProcessSpec()
    expose(src, dst)
    src.inputs['ns'].default['k'] = 2
    return dst.inputs['ns'].default == {'k': 1}, f"destination default became {dst.inputs['ns'].default}"


def main():
    failed = 0
    for check in (
        check_destination_sibling_dropped,
        check_dynamic_override_ignored,
        check_empty_include_selects_everything,
        check_namespace_default_shared,
    ):
        okay, message = check()
        print(('ok      ' if okay else 'VIOLATED'), check.__name__, '' if okay else '-- ' + message)
        failed += not okay
    sys.exit(1 if failed else 0)


if __name__ == '__main__':
    main()
