# -*- coding: utf-8 -*-
"""Kill requests that are lost (or raise) on the CLEAN tree. Exits non-zero when at least one scenario misbehaves."""

import asyncio
import sys

import plumpy
from plumpy import ProcessState


class SleepingProcess(plumpy.Process):
    async def run(self):
        await asyncio.sleep(0.05)
        return 'finished'


class WaitingProcess(plumpy.Process):
    async def run(self):
        return plumpy.Wait(self.finish)

    def finish(self, *_args):
        return 'finished'


class TwoSteps(plumpy.Process):
    async def run(self):
        await asyncio.sleep(0.01)
        return plumpy.Continue(self.second)

    async def second(self):
        return plumpy.Wait(self.finish)

    def finish(self, *_args):
        return 'finished'


async def until(predicate, ticks=1000):
    for _ in range(ticks):
        if predicate():
            return True
        await asyncio.sleep(0)
    return False


async def finish(task, timeout=1.0):
    done, _ = await asyncio.wait([task], timeout=timeout)
    return bool(done)


def describe(value):
    return repr(value)


async def kill_then_pause_in_running_step(problems):
    """A: kill() followed by pause() inside the same running step: the pause cancels the pending kill."""
    proc = SleepingProcess()
    task = asyncio.ensure_future(proc.step_until_terminated())
    assert await until(lambda: proc.state == ProcessState.RUNNING)
    await asyncio.sleep(0.01)
    killing = proc.kill('stop')
    proc.pause()
    await finish(task)
    if proc.state != ProcessState.KILLED:
        problems.append(f'A kill();pause() in a running step: ended {proc.state}, kill() returned {describe(killing)}')
    if not task.done():
        task.cancel()


async def pause_then_kill_in_waiting_step(problems):
    """B: pause() followed by kill() inside the same waiting step: kill() raises and the process becomes unkillable."""
    proc = WaitingProcess()
    task = asyncio.ensure_future(proc.step_until_terminated())
    assert await until(lambda: proc.state == ProcessState.WAITING)
    proc.pause()
    try:
        proc.kill('stop')
    except Exception as exception:
        problems.append(f'B pause();kill() in a waiting step: kill() raised {exception!r}')
    await finish(task, 0.5)
    proc.play()
    await finish(task, 0.5)
    if proc.state != ProcessState.KILLED:
        again = proc.kill('stop, really')
        await finish(task, 0.5)
        problems.append(
            f'B pause();kill() in a waiting step: process is {proc.state}; a further kill() returned '
            f'{describe(again)} and the process is now {proc.state}'
        )
    if not task.done():
        task.cancel()


async def kill_from_running_listener(problems):
    """C: kill() from an ``on_process_running`` listener (during the transition made by a step) is lost for good."""
    proc = TwoSteps()
    returned = []

    listener = plumpy.ProcessListener()

    def on_running(process):
        if not returned:
            returned.append(process.kill('from the listener'))

    listener.on_process_running = on_running
    proc.add_process_listener(listener)
    task = asyncio.ensure_future(proc.step_until_terminated())
    await finish(task, 0.5)
    if proc.state != ProcessState.KILLED:
        again = proc.kill('again')
        await finish(task, 0.5)
        problems.append(
            f'C kill() from on_process_running: kill() returned {describe(returned[0])}, process went on to '
            f'{proc.state}; a further kill() returned {describe(again)}, state now {proc.state}'
        )
    if not task.done():
        task.cancel()


async def resume_then_kill(problems):
    """D: resume() followed by kill() before the waiting step has woken up: kill() raises."""
    proc = WaitingProcess()
    task = asyncio.ensure_future(proc.step_until_terminated())
    assert await until(lambda: proc.state == ProcessState.WAITING)
    proc.resume()
    raised = None
    try:
        proc.kill('stop')
    except Exception as exception:
        raised = exception
    await finish(task, 0.5)
    if raised is not None:
        problems.append(f'D resume();kill() between two callbacks: kill() raised {raised!r} (final state {proc.state})')
    if not task.done():
        task.cancel()


def main():
    loop = asyncio.new_event_loop()
    asyncio.set_event_loop(loop)
    loop.set_exception_handler(lambda *_: None)
    problems = []
    for scenario in (
        kill_then_pause_in_running_step,
        pause_then_kill_in_waiting_step,
        kill_from_running_listener,
        resume_then_kill,
    ):
        loop.run_until_complete(scenario(problems))

    for problem in problems:
        print('VIOLATION:', problem)

    assert not problems, f'{len(problems)} violations of the kill property on the clean tree'
    print('ok')


if __name__ == '__main__':
    main()
    sys.exit(0)
