# -*- coding: utf-8 -*-
"""Violations of the ToContext barrier on the CLEAN tree.  Exits non-zero when at least one of them is observed.

Main finding (scenarios A and B): a ``pause()`` of the waiting workchain issued in the same event-loop iteration in
which an awaited item completed (after the item was resolved, before its done-callback ran) makes the workchain lose
that completion:

A. the item FAILED  -> the failure is dropped; after ``play()`` and the completion of the other item the next step RUNS,
   does not find the key of the failed item, and the workchain FINISHES instead of ending EXCEPTED
B. the item was the LAST one and succeeded -> after ``play()`` the workchain stays WAITING for ever

Secondary observations:

C. the same future/child registered under two keys: only the last key is ever assigned
D. ``Process.resume()`` (public) called on a waiting workchain opens the barrier although items are outstanding
"""

import asyncio
import sys
import warnings

import plumpy
from plumpy import ProcessState, ToContext, WorkChain

warnings.simplefilter('ignore', DeprecationWarning)


def make_workchain():
    class Chain(WorkChain):
        steps_run = None
        seen = None

        @classmethod
        def define(cls, spec):
            super().define(spec)
            spec.outline(cls.submit, cls.collect)

        def submit(self):
            type(self).steps_run = ['submit']
            self.left = asyncio.Future()
            self.right = asyncio.Future()
            return ToContext(left=self.left, right=self.right)

        def collect(self):
            type(self).steps_run.append('collect')
            type(self).seen = {key: getattr(self.ctx, key, '<missing>') for key in ('left', 'right')}

    return Chain


async def until(predicate, what):
    for _ in range(2000):
        if predicate():
            return
        await asyncio.sleep(0.001)
    raise AssertionError(f'timed out waiting until {what}')


async def settle():
    for _ in range(20):
        await asyncio.sleep(0)


async def start():
    cls = make_workchain()
    chain = cls()
    task = asyncio.ensure_future(chain.step_until_terminated())
    await until(lambda: chain.state == ProcessState.WAITING, 'the workchain waits')
    await settle()
    return cls, chain, task


async def wait_terminated(task, seconds=1.0):
    try:
        await asyncio.wait_for(asyncio.shield(task), seconds)
        return True
    except asyncio.TimeoutError:
        task.cancel()
        return False


async def scenario_a():
    cls, chain, task = await start()
    error = RuntimeError('the left item failed')
    chain.left.set_exception(error)  # the item fails ...
    chain.pause()  # ... and, before the loop got to its callbacks, the workchain is paused
    await settle()
    chain.play()
    await settle()
    chain.right.set_result('right')
    terminated = await wait_terminated(task)
    if terminated and chain.state == ProcessState.EXCEPTED and cls.steps_run == ['submit']:
        return None
    return (
        f'A: an awaited item failed, yet the workchain is {chain.state}, steps run {cls.steps_run}, '
        f'context seen by the next step {cls.seen}'
    )


async def scenario_b():
    cls, chain, task = await start()
    chain.left.set_result('left')
    await settle()
    chain.right.set_result('right')  # the last item completes ...
    chain.pause()  # ... and, before the loop got to its callbacks, the workchain is paused
    await settle()
    chain.play()
    terminated = await wait_terminated(task)
    if terminated and chain.state == ProcessState.FINISHED and cls.seen == {'left': 'left', 'right': 'right'}:
        return None
    return f'B: every awaited item completed and the workchain was played, yet it is {chain.state}, steps {cls.steps_run}'


async def scenario_c():
    seen = {}

    class Chain(WorkChain):
        @classmethod
        def define(cls, spec):
            super().define(spec)
            spec.outline(cls.submit, cls.collect)

        def submit(self):
            self.item = asyncio.Future()
            return ToContext(first=self.item, second=self.item)

        def collect(self):
            seen.update({key: getattr(self.ctx, key, '<missing>') for key in ('first', 'second')})

    chain = Chain()
    task = asyncio.ensure_future(chain.step_until_terminated())
    await until(lambda: chain.state == ProcessState.WAITING, 'the workchain waits')
    await settle()
    chain.item.set_result('value')
    await wait_terminated(task)
    if seen == {'first': 'value', 'second': 'value'}:
        return None
    return f'C: one item awaited under two keys, the next step sees {seen}'


async def scenario_d():
    cls, chain, task = await start()
    chain.left.set_result('left')
    await settle()
    chain.resume()
    await settle()
    await settle()
    ran_early = cls.steps_run == ['submit', 'collect'] and not chain.right.done()
    seen = cls.seen
    chain.right.set_result('right')
    await wait_terminated(task)
    if not ran_early:
        return None
    return f'D: resume() let the next step run while an item was outstanding, it saw {seen}'


async def main():
    loop = asyncio.get_event_loop()
    loop.set_exception_handler(lambda _loop, _context: None)  # the lost completions show up as callback errors
    violations = []
    for scenario in (scenario_a, scenario_b, scenario_c, scenario_d):
        outcome = await scenario()
        if outcome:
            violations.append(outcome)
    return violations


if __name__ == '__main__':
    found = plumpy.get_event_loop().run_until_complete(main())
    for line in found:
        print('VIOLATION', line)
    if not found:
        print('OK: no violation observed')
    sys.exit(1 if found else 0)
