"""Clean-tree finding: a wake-up that falls between the same two event-loop callbacks as a pause request is lost.

Case 1 (plain Process): pause() directly followed by resume(value). ``Waiting.interrupt`` has put the
  PauseInterruption into the waiting future, so ``Waiting.resume`` finds the future "done" and silently drops the
  value. The step then replaces the future with a fresh one that nobody will ever resolve.
Case 2 (WorkChain): the awaited future completes, then pause() is called before the loop has run the future's done
  callback. ``Waiting._awaitable_done`` then calls ``set_result`` on the already interrupted waiting future, which
  raises ``InvalidStateError`` inside the loop callback (only logged); the fresh future is never resolved.
In both cases the process is played afterwards, everything it waits for has happened, and it stays WAITING forever.
Exits non-zero on the clean tree.
"""
import asyncio
import sys

import plumpy
from plumpy import ProcessState
from plumpy.process_states import Wait
from plumpy.workchains import ToContext, WorkChain


class Resumable(plumpy.Process):
    got = None

    def run(self):
        return Wait(self.after, 'waiting')

    def after(self, value):
        Resumable.got = value
        return value


class Chain(WorkChain):
    awaited = None

    @classmethod
    def define(cls, spec):
        super().define(spec)
        spec.outline(cls.begin, cls.end)

    def begin(self):
        Chain.awaited = asyncio.get_event_loop().create_future()
        return ToContext(answer=Chain.awaited)

    def end(self):
        assert self.ctx.answer == 42


async def settle(n=30):
    for _ in range(n):
        await asyncio.sleep(0)


async def wait_for_state(proc, state):
    for _ in range(500):
        if proc.state == state:
            return
        await asyncio.sleep(0)
    raise AssertionError(f'process never reached {state}, it is {proc.state}')


async def run_case(name, proc, wake_up_and_pause):
    loop = asyncio.get_event_loop()
    task = loop.create_task(proc.step_until_terminated())
    await wait_for_state(proc, ProcessState.WAITING)
    await settle()

    wake_up_and_pause(proc)  # no event-loop callback runs between the two calls
    await settle()
    if proc.paused:
        assert proc.play() is True
    try:
        await asyncio.wait_for(asyncio.shield(task), timeout=1.0)
    except asyncio.TimeoutError:
        task.cancel()
        return f'{name}: woken up and playing (paused={proc.paused}) but stays {proc.state} forever'
    assert proc.state == ProcessState.FINISHED
    return None


def pause_then_resume(proc):
    proc.pause()
    proc.resume(5)


def complete_then_pause(proc):
    Chain.awaited.set_result(42)
    proc.pause()


def main():
    loop = asyncio.new_event_loop()
    asyncio.set_event_loop(loop)
    loop.set_exception_handler(lambda _loop, context: print('  (loop callback failed: %r)' % context.get('exception')))
    failures = [
        loop.run_until_complete(run_case('case 1, pause() then resume(5)', Resumable(), pause_then_resume)),
        loop.run_until_complete(run_case('case 2, awaitable done then pause()', Chain(), complete_then_pause)),
    ]
    failures = [failure for failure in failures if failure]
    for failure in failures:
        print('clean_tree_demo: PROPERTY VIOLATED:', failure)
    assert not failures
    print('clean_tree_demo: OK')


if __name__ == '__main__':
    try:
        main()
    except AssertionError:
        sys.exit(1)
