# -*- coding: utf-8 -*-
"""CLEAN-TREE finding: a state-change broadcast that fails with an exception other than the three that ``on_entered``
expects takes the process out of the terminal state it has just entered (FINISHED -> EXCEPTED, KILLED -> EXCEPTED).

Exits non-zero on the clean tree.
"""

import logging
import sys

import kiwipy

import plumpy
from plumpy import ProcessState


class FlakyCommunicator:
    """Accepts everything, but the broadcast of the transition into a terminal state cannot be routed/sent"""

    def __init__(self, error):
        self.error = error

    def add_rpc_subscriber(self, subscriber, identifier=None):
        return identifier

    def add_broadcast_subscriber(self, subscriber, identifier=None):
        return identifier

    def remove_rpc_subscriber(self, identifier):
        pass

    def remove_broadcast_subscriber(self, identifier):
        pass

    def broadcast_send(self, body, sender=None, subject=None, correlation_id=None):
        if subject.endswith('.finished') or subject.endswith('.killed'):
            raise self.error
        return True


class Recorder(plumpy.ProcessListener):
    def __init__(self):
        super().__init__()
        self.events = []

    def on_process_finished(self, process, outputs):
        self.events.append(('finished', process.state))

    def on_process_killed(self, process, msg):
        self.events.append(('killed', process.state))

    def on_process_excepted(self, process, reason):
        self.events.append(('excepted', process.state))


class Simple(plumpy.Process):
    async def run(self):
        return 7


def main():
    problems = []

    # the errors that are expected are handled: the process stays FINISHED
    proc = Simple(communicator=FlakyCommunicator(kiwipy.TimeoutError()))
    proc.execute()
    assert proc.state == ProcessState.FINISHED

    for error in (kiwipy.UnroutableError('no route'), kiwipy.CommunicatorClosed(), ConnectionResetError('reset')):
        proc = Simple(communicator=FlakyCommunicator(error))
        recorder = Recorder()
        proc.add_process_listener(recorder)
        try:
            proc.execute()
        except Exception:
            pass
        print(type(error).__name__, '->', proc.state, recorder.events)
        if proc.state != ProcessState.FINISHED:
            problems.append(f'{type(error).__name__}: listeners saw {recorder.events}, final state {proc.state}')

        proc = Simple(communicator=FlakyCommunicator(error))
        recorder = Recorder()
        proc.add_process_listener(recorder)
        proc.kill('stop')
        print(type(error).__name__, '->', proc.state, recorder.events)
        if proc.state != ProcessState.KILLED:
            problems.append(f'{type(error).__name__}: listeners saw {recorder.events}, final state {proc.state}')

    assert not problems, problems


if __name__ == '__main__':
    logging.disable(logging.CRITICAL)
    main()
    sys.exit(0)
