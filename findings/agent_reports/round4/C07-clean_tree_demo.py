# -*- coding: utf-8 -*-
"""
Clean-tree finding: a process that excepted with plumpy's own ``EventError`` can be saved, but the bundle cannot be
loaded again - not as it is, and not after travelling as an in-memory copy, through pickle or through YAML.

``EventError`` is what the state machine raises when an event is not valid in the current state, e.g. ``resume()`` on
a process that is not waiting.  Two ordinary ways for a process to end up EXCEPTED with it are shown:

* the process calls ``self.resume()`` from one of its own steps,
* a ``resume`` scheduled with ``call_soon`` fires when the process has already left (or not yet reached) WAITING.

Exits non-zero (failed assertion) on the clean tree.
"""

import asyncio
import copy
import pickle
import sys
import warnings

import yaml

import plumpy
from plumpy import process_states

warnings.simplefilter('ignore', DeprecationWarning)


class Impatient(plumpy.Process):
    def run(self):
        # (a typical slip: meant for the waiting state that comes next)
        self.resume()
        return process_states.Wait(self.done, 'never gets here')

    def done(self):
        return True


class Patient(plumpy.Process):
    def run(self):
        return process_states.Continue(self.done)

    def done(self):
        return True


def try_media(proc, label, failures):
    assert proc.state == plumpy.ProcessState.EXCEPTED, proc.state
    print(f'{label}: excepted with {proc.exception()!r}')
    bundle = plumpy.Bundle(proc)  # saving works
    media = {
        'as it is': lambda: bundle,
        'in-memory copy': lambda: copy.deepcopy(bundle),
        'pickle': lambda: pickle.loads(pickle.dumps(bundle)),
        'yaml': lambda: yaml.load(yaml.dump(bundle), Loader=yaml.UnsafeLoader),
    }
    for medium, travel in media.items():
        try:
            loaded = travel().unbundle()
        except Exception as exception:
            failures.append(f'{label}, {medium}: saved but cannot be loaded: {type(exception).__name__}: {exception}')
            continue
        assert loaded.state == plumpy.ProcessState.EXCEPTED
        assert type(loaded.exception()) is type(proc.exception())
        assert loaded.exception().args == proc.exception().args


def main():
    loop = asyncio.new_event_loop()
    asyncio.set_event_loop(loop)
    failures = []

    # 1. resume() called by the process itself while it is RUNNING
    impatient = Impatient()
    try:
        impatient.execute()
    except Exception:
        pass
    try_media(impatient, 'resume() from a step', failures)

    # 2. a scheduled resume that fires while the process is not waiting
    patient = Patient()

    async def scheduled():
        patient.call_soon(patient.resume)
        await asyncio.sleep(0.05)

    loop.run_until_complete(scheduled())
    try_media(patient, 'resume() scheduled with call_soon', failures)

    for failure in failures:
        print('FAIL', failure)
    assert not failures, f'{len(failures)} bundles of a process that can be saved cannot be loaded'


if __name__ == '__main__':
    main()
    sys.exit(0)
