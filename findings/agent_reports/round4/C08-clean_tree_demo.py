"""
Clean-tree finding: an object that is shared between two separately persisted places stops being shared once a
checkpoint is loaded, so a resumed execution diverges from the uninterrupted one.

The outline below depends only on persisted state (context and outputs).  Step ``collect`` emits the list that it keeps
in the context as an output; step ``more`` appends to that list.  In the uninterrupted execution the emitted output *is*
the context list, so the final outputs show three entries.  ``Process.save_instance_state`` deep-copies the outputs on
their own (``encode_input_args``) and the context is copied separately, so after a restore between the two steps the
output and the context list are two objects: the final outputs of the resumed execution show two entries.

The same happens to two ``auto_persist``-ed members of a plain Process that refer to one object
(``Savable.save_members`` deep-copies member by member).
"""

import asyncio
import faulthandler
import sys

import plumpy
from plumpy import WorkChain

faulthandler.dump_traceback_later(120, exit=True)


class Collector(WorkChain):
    @classmethod
    def define(cls, spec):
        super().define(spec)
        spec.outputs.dynamic = True
        spec.outline(cls.collect, cls.more, cls.report)

    def collect(self):
        self.ctx.found = ['a', 'b']
        self.out('found', self.ctx.found)

    def more(self):
        self.ctx.found.append('c')

    def report(self):
        return len(self.outputs['found'])


@plumpy.auto_persist('items', 'latest')
class Plain(plumpy.Process):
    items = None
    latest = None

    def run(self):
        self.latest = {'n': 0}
        self.items = [self.latest]
        return plumpy.Continue(self.update)

    def update(self):
        self.latest['n'] += 1  # also seen through ``self.items[0]`` ... as long as it is the same object
        return self.items[0]['n']


def fresh_loop():
    loop = asyncio.new_event_loop()
    asyncio.set_event_loop(loop)
    return loop


def uninterrupted(proc_class):
    loop = fresh_loop()
    proc = proc_class(loop=loop)
    loop.run_until_complete(proc.step_until_terminated())
    loop.close()
    return proc.state, proc.result(), dict(proc.outputs)


def crash_after(proc_class, steps):
    persister = plumpy.InMemoryPersister()
    loop = fresh_loop()
    proc = proc_class(loop=loop)

    async def some_steps():
        for _ in range(steps):
            await proc.step()

    loop.run_until_complete(some_steps())
    persister.save_checkpoint(proc)
    pid = proc.pid
    del proc
    loop.close()

    loop = fresh_loop()
    loaded = persister.load_checkpoint(pid).unbundle(plumpy.LoadSaveContext(loop=loop))
    loop.run_until_complete(loaded.step_until_terminated())
    loop.close()
    return loaded.state, loaded.result(), dict(loaded.outputs)


if __name__ == '__main__':
    failures = []
    for proc_class, steps in ((Collector, 2), (Plain, 2)):
        # two calls of ``step``: CREATED -> RUNNING, then the first step of the program
        reference = uninterrupted(proc_class)
        resumed = crash_after(proc_class, steps)
        print(proc_class.__name__, 'uninterrupted:', reference)
        print(proc_class.__name__, 'resumed      :', resumed)
        if resumed != reference:
            failures.append(proc_class.__name__)
    assert not failures, f'resumed execution differs from the uninterrupted one for {failures}'
    print('OK')
    sys.exit(0)
