# -*- coding: utf-8 -*-
"""Clean-tree findings for the property "a step's return value alone decides what happens next, with exact arguments".

Exits non-zero on the CLEAN tree.  Three independent, pre-existing violations are shown (see clean_tree_finding.md):

A. ``Continue(f, **k)`` cannot carry every keyword: ``process``, ``run_fn`` and ``state_label`` collide with parameters
   of the internal call chain (``State.create_state(state_label, ...)`` / ``Running.__init__(process, run_fn, ...)``)
   and the process ends EXCEPTED with a ``TypeError`` instead of running ``f(**k)``.
B. ``pause()`` directly followed by ``resume(v)`` (same event-loop tick) while WAITING: the resume value is dropped
   silently, so after ``play()`` the process stays WAITING for ever instead of running ``f(v)``.
C. ``resume(v)`` with a value whose ``__eq__`` answers True to everything (e.g. ``unittest.mock.ANY``) is taken for
   "resumed without a value": ``f()`` runs instead of ``f(v)``.
"""

import asyncio
import sys
import unittest.mock

import plumpy
from plumpy import ProcessState


class KeywordChain(plumpy.Process):
    KEYWORD = None

    def run(self):
        return plumpy.Continue(self.second, **{self.KEYWORD: 'value'})

    def second(self, **kwargs):
        return kwargs


class WaitThenEcho(plumpy.Process):
    def run(self):
        return plumpy.Wait(self.echo)

    def echo(self, *args):
        return ('echo',) + args


async def until_waiting(proc):
    task = asyncio.ensure_future(proc.step_until_terminated())
    while proc.state != ProcessState.WAITING:
        await asyncio.sleep(0)
    await asyncio.sleep(0)
    return task


async def main():
    failures = []

    # A. keyword arguments of Continue
    for keyword in ('colour', 'process', 'run_fn', 'state_label'):
        cls = type(f'KeywordChain_{keyword}', (KeywordChain,), {'KEYWORD': keyword})
        proc = cls()
        await proc.step_until_terminated()
        if proc.state != ProcessState.FINISHED or proc.result() != {keyword: 'value'}:
            failures.append(f'A: Continue(f, {keyword}=...) ended {proc.state}: {proc.exception()!r}')

    # B. pause() and resume(v) in the same tick
    proc = WaitThenEcho()
    task = await until_waiting(proc)
    pausing = proc.pause()
    proc.resume('v')
    await pausing
    assert proc.paused
    proc.play()
    try:
        await asyncio.wait_for(task, 1.0)
    except asyncio.TimeoutError:
        pass
    if proc.state != ProcessState.FINISHED or proc.result() != ('echo', 'v'):
        failures.append(f'B: pause(); resume(v); play() left the process {proc.state}: echo(v) never ran')
        proc.kill()

    # C. a resume value that compares equal to anything
    proc = WaitThenEcho()
    task = await until_waiting(proc)
    proc.resume(unittest.mock.ANY)
    await asyncio.wait_for(task, 1.0)
    if proc.result() != ('echo', unittest.mock.ANY) or len(proc.result()) != 2:
        failures.append(f'C: resume(ANY) ran echo{proc.result()[1:]!r} instead of echo(ANY)')

    for failure in failures:
        print('CLEAN-TREE VIOLATION:', failure)
    assert not failures


if __name__ == '__main__':
    asyncio.run(main())
    print('OK')
    sys.exit(0)
