# -*- coding: utf-8 -*-
"""Pre-existing (clean tree) violations of 'only spec-conforming inputs create a process'.  Exits non-zero."""

import asyncio
import sys

import plumpy


def never(value, port):
    return 'never valid'


class Proc(plumpy.Process):
    @classmethod
    def define(cls, spec):
        super().define(spec)
        spec.input('a', valid_type=int, required=False)
        spec.input('v', required=False, validator=never)
        spec.input('d', valid_type=int, default=3)
        spec.input_namespace('ns', required=False)
        spec.input('ns.x', valid_type=int, required=False)
        spec.input_namespace('dyn', dynamic=True, valid_type=int, required=False)

    async def run(self):
        return None


def main():
    loop = asyncio.new_event_loop()
    asyncio.set_event_loop(loop)
    failures = []

    # Sanity: ordinary wrong values are refused
    for inputs in ({'a': 'text'}, {'a': (1,)}, {'v': 1}, {'d': 'text'}, {'ns': 5}, {'ns': {'x': 'text'}}):
        try:
            Proc(inputs=inputs, loop=loop)
        except (ValueError, TypeError):
            pass
        else:
            failures.append(f'sanity: {inputs} was accepted')
    assert not failures, failures

    # 1. The empty tuple is the `UNSPECIFIED` sentinel (`() is ()`), so it passes for any type and skips any validator
    # 2. A value for a namespace that is not a mapping at all is accepted when `dict()` happens to swallow it
    not_conforming = {
        'empty tuple for an int port': {'a': ()},
        'empty tuple for a port whose validator refuses everything': {'v': ()},
        'empty tuple instead of the int default': {'d': ()},
        'list for a namespace': {'ns': []},
        'string for a namespace': {'ns': ''},
        'list of pairs for a namespace': {'ns': [('x', 1)]},
        'list of pairs for a dynamic namespace': {'dyn': [('k', 1)]},
    }
    for label, inputs in not_conforming.items():
        try:
            process = Proc(inputs=inputs, loop=loop)
        except (ValueError, TypeError):
            continue
        failures.append(f'{label}: {inputs} created a process with inputs {process.inputs}')

    # 3. `inputs` is a read-only mapping, but assigning an attribute goes through and shadows the value that
    #    attribute access returns
    process = Proc(inputs={'a': 1}, loop=loop)
    try:
        process.inputs.a = 5
    except (TypeError, AttributeError):
        pass
    else:
        if process.inputs.a != 1:
            failures.append(f"inputs.a = 5 went through: inputs.a is {process.inputs.a}, inputs['a'] is 1")

    for failure in failures:
        print('FAIL', failure)
    assert not failures, f'{len(failures)} violation(s) on the clean tree'
    print('OK')


if __name__ == '__main__':
    main()
    sys.exit(0)
