"""Clean-tree violations of 'a failure in user code ends the process EXCEPTED, never half-transitioned'.

Exits non-zero on the unmodified tree. Three independent cases, see clean_tree_finding.md.
"""

import asyncio
import sys
import warnings

import plumpy
from plumpy import Process, ProcessState, WorkChain

warnings.simplefilter('ignore')


class Boom(Exception):
    pass


# -- case A: a termination hook that fails after calling super() ------------------------------------------------------
class FailsInOnTerminated(Process):
    calls = 0

    def on_terminated(self):
        super().on_terminated()  # closes the process, which drops the state event callbacks
        self.calls += 1
        if self.calls == 1:
            raise Boom('raised by on_terminated')

    async def run(self):
        return 5


async def case_a():
    problems = []
    proc = FailsInOnTerminated()
    await asyncio.wait_for(proc.step_until_terminated(), 2)
    if proc.state != ProcessState.EXCEPTED or not isinstance(proc.exception(), Boom):
        problems.append(f'A: state {proc.state}, exception {proc.exception()!r}')
    future = proc.future()
    if not (future.done() and future.exception() is not None):
        problems.append(f'A: process is {proc.state} but its future does not raise, it returns {future.result()!r}')
    return problems


# -- case B: a kill is pending when the step function raises ----------------------------------------------------------
class FailsInRun(Process):
    async def run(self):
        await asyncio.sleep(0.05)
        raise Boom('raised by run')


async def case_b():
    problems = []
    proc = FailsInRun()
    stepping = asyncio.ensure_future(proc.step_until_terminated())
    await asyncio.sleep(0.01)
    proc.kill('stop it')  # step in flight: the kill is deferred to the end of the step
    await asyncio.wait_for(stepping, 2)
    if proc.state != ProcessState.EXCEPTED:
        problems.append(f'B: run() raised Boom but the process ended {proc.state}, the exception is lost')
    return problems


# -- case C: two awaitables of a work chain complete in the same loop iteration, one of them failed --------------------
class TwoAwaitables(WorkChain):
    @classmethod
    def define(cls, spec):
        super().define(spec)
        spec.outline(cls.first, cls.second)

    def first(self):
        self.one, self.two = asyncio.Future(), asyncio.Future()
        self.to_context(one=self.one, two=self.two)

    def second(self):
        pass


async def case_c(loop_errors):
    problems = []
    chain = TwoAwaitables()
    stepping = asyncio.ensure_future(chain.step_until_terminated())
    await asyncio.sleep(0.02)
    chain.one.set_exception(Boom('first awaitable failed'))
    chain.two.set_result('fine')
    await asyncio.wait_for(stepping, 2)
    await asyncio.sleep(0.01)
    if chain.state != ProcessState.EXCEPTED:
        problems.append(f'C: state {chain.state}')
    if loop_errors:
        problems.append(f'C: exception escaped into the event loop: {loop_errors[0].get("exception")!r}')
    return problems


def main():
    loop = asyncio.get_event_loop()
    loop_errors = []
    loop.set_exception_handler(lambda _loop, context: loop_errors.append(context))
    problems = []
    problems += loop.run_until_complete(case_a())
    problems += loop.run_until_complete(case_b())
    problems += loop.run_until_complete(case_c(loop_errors))
    for problem in problems:
        print('VIOLATION:', problem)
    assert not problems, problems


if __name__ == '__main__':
    main()
    sys.exit(0)
