# -*- coding: utf-8 -*-
"""
Clean-tree finding: a ``save_checkpoint`` that FAILS is not a no-op for the pickle persister.

``PicklePersister.save_checkpoint`` opens the target file with ``'w+b'`` (which truncates it) and only then calls
``pickle.dump``.  When the dump raises (the process holds something that cannot be pickled), the previously saved
snapshot under the same (pid, tag) is gone and an empty ``<pid>.<tag>.pickle`` is left behind, after which
``load_checkpoint`` of that key, ``get_checkpoints()``, ``get_process_checkpoints(...)`` and therefore
``delete_process_checkpoints(...)`` of ANY process all raise ``EOFError``.

The in-memory persister fails on the very same save (``copy.deepcopy`` cannot copy the object either) but keeps the
previous snapshot and keeps listing/deleting fine: the two persisters are not observationally equivalent over a history
that contains a failing save, and "loading returns the most recently (successfully) saved snapshot" does not hold.
"""
import asyncio
import sys
import tempfile
import threading

import plumpy


class WithContext(plumpy.Process):
    """A process that keeps some scratch state which it persists"""

    def __init__(self, *args, **kwargs):
        super().__init__(*args, **kwargs)
        self.scratch = {}

    def save_instance_state(self, out_state, save_context):
        super().save_instance_state(out_state, save_context)
        out_state['scratch'] = self.scratch

    def load_instance_state(self, saved_state, load_context):
        super().load_instance_state(saved_state, load_context)
        self.scratch = saved_state['scratch']

    def run(self):
        return 'done'


def history(persister):
    """Run the same history against a persister and return everything that can be observed"""
    observations = []

    def observe(label, function):
        try:
            observations.append((label, function()))
        except Exception as exception:
            observations.append((label, f'raised {type(exception).__name__}'))

    proc = WithContext(pid=1)
    other = WithContext(pid=2)
    proc.scratch['note'] = 'fine'
    observe('save (1, 7)', lambda: persister.save_checkpoint(proc, 7))
    observe('save (2, 7)', lambda: persister.save_checkpoint(other, 7))

    # The live process picks up something that can neither be deep-copied nor pickled
    proc.scratch['lock'] = threading.Lock()
    observe('failing save (1, 7)', lambda: persister.save_checkpoint(proc, 7))

    observe('load (1, 7)', lambda: persister.load_checkpoint(1, 7)['scratch'])
    observe('list', lambda: sorted((c.pid, c.tag) for c in persister.get_checkpoints()))
    observe('list pid 2', lambda: sorted((c.pid, c.tag) for c in persister.get_process_checkpoints(2)))
    observe('delete process 2', lambda: persister.delete_process_checkpoints(2))
    observe('list after delete', lambda: sorted((c.pid, c.tag) for c in persister.get_checkpoints()))
    return observations


def main():
    loop = asyncio.new_event_loop()
    asyncio.set_event_loop(loop)

    with tempfile.TemporaryDirectory() as directory:
        memory = history(plumpy.InMemoryPersister())
        pickled = history(plumpy.PicklePersister(directory))
    loop.close()

    for (label, mem), (_, pkl) in zip(memory, pickled):
        marker = '  ' if mem == pkl else '!!'
        print(f'{marker} {label:20s} memory: {mem!r:45} pickle: {pkl!r}')

    assert memory == pickled, 'the in-memory and the pickle persister differ after a failed save'


if __name__ == '__main__':
    main()
    sys.exit(0)
