# -*- coding: utf-8 -*-
"""Clean-tree finding: a terminated process that is recreated from a checkpoint subscribes to the communicator again
and then keeps receiving (and answering) messages for ever -- 'a terminated process no longer receives messages' does
not hold after a save/load round trip.

Exits non-zero (AssertionError) on the clean tree.
"""

import kiwipy

import plumpy
from plumpy.process_comms import MessageBuilder


class Simple(plumpy.Process):
    def run(self):
        return 5


def main():
    communicator = kiwipy.LocalCommunicator()

    proc = Simple(communicator=communicator)
    proc.execute()
    assert proc.has_terminated()

    # The original is unsubscribed once terminated, as it should be
    try:
        communicator.rpc_send(str(proc.pid), MessageBuilder.status())
    except kiwipy.UnroutableError:
        pass
    else:
        raise AssertionError('the terminated original still receives messages')

    # Save / load round trip of the terminated process, with the communicator in the load context
    bundle = plumpy.Bundle(proc)
    loaded = bundle.unbundle(plumpy.LoadSaveContext(communicator=communicator))
    assert loaded.has_terminated()

    try:
        reply = communicator.rpc_send(str(loaded.pid), MessageBuilder.status())
    except kiwipy.UnroutableError:
        print('OK: the recreated terminated process does not receive messages')
    else:
        raise AssertionError(
            f'a terminated process ({loaded.state}) recreated from a checkpoint receives and answers RPC messages: '
            f'{reply.result()}'
        )


if __name__ == '__main__':
    main()
