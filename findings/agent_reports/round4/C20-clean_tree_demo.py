# -*- coding: utf-8 -*-
"""
Clean tree finding: the communicator-side mirror of a loop future that is *already done* when it is mirrored is never
resolved while the loop is idle.

``plum_to_kiwi_future`` is called in the communicator thread (see ``convert_to_comm``).  It registers its callback
with ``plum_future.add_done_callback`` which, for a future that is already done, does ``loop.call_soon(...)`` -- from
the wrong thread, so the loop, blocked in its selector, is not woken up.  The outcome only arrives if and when
something else happens to wake the loop.
"""

import asyncio
import concurrent.futures
import sys
import threading
import time

from plumpy import communications, futures


def main():
    loop = asyncio.new_event_loop()
    thread = threading.Thread(target=loop.run_forever, daemon=True)
    thread.start()

    async def quick():
        return 'answer'

    # what convert_to_comm does in the communicator thread, with the loop winning the race: the task is through
    # before the mirror gets created
    task_future = futures.create_task(quick, loop)
    deadline = time.time() + 5
    while not task_future.done() and time.time() < deadline:
        time.sleep(0.01)
    assert task_future.done(), 'the scheduled coroutine itself did not finish'
    time.sleep(0.1)  # let the loop go back to sleep

    kiwi_future = communications.plum_to_kiwi_future(task_future)
    try:
        result = kiwi_future.result(timeout=2.0)
    except concurrent.futures.TimeoutError:
        result = '<nothing within 2s>'
    print('mirror of an already finished loop future delivered:', result)

    # waking up the loop by any other means makes the outcome appear, which shows that it was stuck in the ready queue
    loop.call_soon_threadsafe(lambda: None)
    print('after waking the loop:', kiwi_future.result(timeout=2.0))

    loop.call_soon_threadsafe(loop.stop)
    thread.join(5)
    assert result == 'answer', 'outcome of a finished loop future was not delivered to the communicator side'


if __name__ == '__main__':
    main()
    sys.exit(0)
