# -*- coding: utf-8 -*-
"""Pre-existing (clean tree) violations of the Savable round-trip property.  Exits non-zero if any of them shows."""

import sys
import warnings

import plumpy
from plumpy import loaders

warnings.simplefilter('ignore', DeprecationWarning)

REGISTRY = {}


class RegistryLoader(loaders.ObjectLoader):
    """A custom loader with its own identifier scheme (short registered names)"""

    def load_object(self, identifier):
        try:
            return REGISTRY[identifier]
        except KeyError:
            raise ValueError(f'unknown identifier {identifier}')

    def identify_object(self, obj):
        for name, registered in REGISTRY.items():
            if registered is obj:
                return name
        raise ValueError(f'unknown object {obj}')


@plumpy.auto_persist('x')
class Inner(plumpy.Savable):
    def __init__(self):
        self.x = 1


@plumpy.auto_persist('inner')
class Outer(plumpy.Savable):
    def __init__(self):
        self.inner = Inner()


REGISTRY.update({'inner': Inner, 'outer': Outer})


def finding_nested_with_per_save_loader():
    """The nested Savable is identified with the *default* loader (``value.save()`` gets no context) but loaded
    with the recorded custom loader"""
    saved = Outer().save(plumpy.LoadSaveContext(loader=RegistryLoader()))
    assert saved['inner']['!!meta']['class_name'] == 'inner', saved['inner']['!!meta']
    loaded = plumpy.Savable.load(saved)
    assert type(loaded.inner) is Inner


class Container:
    @plumpy.auto_persist('v')
    class Thing(plumpy.Savable):
        def __init__(self):
            self.v = 'nested'


@plumpy.auto_persist('v')
class Thing(plumpy.Savable):
    def __init__(self):
        self.v = 'module level'


def finding_wrong_object_for_nested_class():
    """``DefaultObjectLoader.identify_object`` uses ``__name__`` and only checks that *something* loads"""
    try:
        saved = Container.Thing().save()
    except ValueError:
        return  # refusing to identify it is fine
    loaded = plumpy.Savable.load(saved)
    assert type(loaded) is Container.Thing, f'wrong object: {type(loaded)} for a {Container.Thing}'


@plumpy.auto_persist('tag')
class TaggedFuture(plumpy.SavableFuture):
    def __init__(self, *args, **kwargs):
        super().__init__(*args, **kwargs)
        self.tag = 'initial'


def finding_future_subclass_members():
    """``SavableFuture.recreate_from`` constructs a new future and never calls ``load_instance_state``"""
    future = TaggedFuture()
    future.tag = 'changed'
    saved = future.save()
    assert saved['tag'] == 'changed'
    loaded = plumpy.Savable.load(saved)
    assert loaded.tag == 'changed', f"declared member 'tag' restored as {loaded.tag!r}"


@plumpy.auto_persist('a')
class HasA(plumpy.Savable):
    pass


@plumpy.auto_persist('b')
class HasB(plumpy.Savable):
    pass


class HasBoth(HasA, HasB):
    def __init__(self):
        self.a, self.b = 1, 2


def finding_multiple_inheritance():
    """``_auto_persist`` is one set found through the MRO: the declarations of the second base are lost"""
    saved = HasBoth().save()
    assert 'a' in saved and 'b' in saved, f'saved members: {sorted(k for k in saved if k != "!!meta")}'


def main():
    failed = 0
    for finding in (
        finding_nested_with_per_save_loader,
        finding_wrong_object_for_nested_class,
        finding_future_subclass_members,
        finding_multiple_inheritance,
    ):
        try:
            finding()
        except Exception as exc:
            failed += 1
            print(f'VIOLATION {finding.__name__}: {type(exc).__name__}: {exc}')
        else:
            print(f'ok        {finding.__name__}')
    sys.exit(1 if failed else 0)


if __name__ == '__main__':
    main()
