# -*- coding: utf-8 -*-
"""Clean tree finding: the empty tuple is the ``UNSPECIFIED`` marker of ``plumpy.ports``, so ``out(port, ())`` is
never type checked nor passed to the validator of the port. An ``int`` port stores ``()`` and the process is reported
successful with it; a required ``tuple`` port refuses ``()`` although it is a perfectly valid tuple.

Exits non-zero (failed assertion) on the clean tree.
"""

import plumpy
from plumpy import ProcessState


def only_strings(value, _port):
    return None if isinstance(value, str) else 'only strings please'


class Emitter(plumpy.Process):
    @classmethod
    def define(cls, spec):
        super().define(spec)
        spec.output('count', valid_type=int, required=False)
        spec.output('name', validator=only_strings, required=False)

    def run(self):
        self.accepted = []
        for path, value in (('count', []), ('count', ()), ('name', 3), ('name', ())):
            try:
                self.out(path, value)
            except ValueError:
                pass
            else:
                self.accepted.append((path, value))


def main():
    proc = Emitter()
    proc.execute()
    assert proc.state == ProcessState.FINISHED

    # A list is refused for the ``int`` port and so is ``3`` by the validator, as it should be. The empty tuple however
    # is stored on both ports ...
    violations = [entry for entry in proc.accepted]
    # ... and the process is successful with ``{'count': (), 'name': ()}`` as its outputs
    assert not (proc.successful() and proc.outputs), (
        f'accepted {violations}; finished successful={proc.successful()} with outputs {proc.outputs} '
        f'(future: {proc.future().result()})'
    )
    assert proc.accepted == [], proc.accepted

    print('clean_tree_demo: OK')


if __name__ == '__main__':
    main()
