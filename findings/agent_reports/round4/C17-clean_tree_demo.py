# -*- coding: utf-8 -*-
"""
Clean tree finding: with the ``PicklePersister`` distinct (pid, tag) pairs can share one checkpoint file, so that a
continue task resumes a checkpoint other than the one that was requested.

``PicklePersister.pickle_filename`` is ``f'{pid}.{tag}.pickle'`` / ``f'{pid}.pickle'``:

* pid ``'7'`` with tag ``'x'``   and pid ``'7.x'`` without a tag  -> ``7.x.pickle``
* pid ``7`` (int)               and pid ``'7'`` (str)             -> ``7.pickle``

The ``InMemoryPersister`` keeps all of these apart.
"""

import asyncio
import tempfile

import plumpy
from plumpy import process_comms


class Alpha(plumpy.Process):
    @classmethod
    def define(cls, spec):
        super().define(spec)
        spec.outputs.dynamic = True

    def run(self):
        self.out('who', 'alpha')


class Beta(Alpha):
    def run(self):
        self.out('who', 'beta')


LOADER = plumpy.get_object_loader()


def create_task(process_class, pid):
    return {
        process_comms.TASK_KEY: process_comms.CREATE_TASK,
        process_comms.TASK_ARGS: {
            process_comms.PROCESS_CLASS_KEY: LOADER.identify_object(process_class),
            process_comms.PERSIST_KEY: True,
            process_comms.ARGS_KEY: None,
            process_comms.KWARGS_KEY: {'pid': pid},
        },
    }


async def scenario(make_persister, label, check):
    # (a) tag versus dotted pid
    persister = make_persister()
    launcher = plumpy.ProcessLauncher(persister=persister)
    alpha = Alpha(pid='7')
    persister.save_checkpoint(alpha, tag='x')  # a tagged checkpoint of process '7' (an Alpha)
    await launcher(None, create_task(Beta, '7.x'))  # create task for another process, pid '7.x' (a Beta)
    reply = await launcher(None, plumpy.create_continue_body('7', tag='x'))
    check(reply == {'who': 'alpha'}, f"[{label}] continue pid='7' tag='x' (an Alpha) replied {reply}")

    # (b) int pid versus str pid
    persister = make_persister()
    launcher = plumpy.ProcessLauncher(persister=persister)
    await launcher(None, create_task(Alpha, 7))
    await launcher(None, create_task(Beta, '7'))
    reply = await launcher(None, plumpy.create_continue_body(7))
    check(reply == {'who': 'alpha'}, f'[{label}] continue pid=7 (an Alpha) replied {reply}')


async def main():
    failures = []

    def check(condition, message):
        print(('ok       ' if condition else 'VIOLATED ') + message)
        if not condition:
            failures.append(message)

    await scenario(plumpy.InMemoryPersister, 'in memory', check)
    with tempfile.TemporaryDirectory() as directory:
        counter = iter(range(100))
        await scenario(lambda: plumpy.PicklePersister(f'{directory}/{next(counter)}'), 'pickle', check)
    return failures


if __name__ == '__main__':
    problems = asyncio.run(main())
    assert not problems, f'{len(problems)} check(s) failed: a continue task resumed another checkpoint'
    print('\nall checks passed')
