# -*- coding: utf-8 -*-
"""Two ways in which the CLEAN tree already breaks "all reports of a terminated process's outcome agree".

(A) ``close()`` followed by ``kill()``: the process becomes KILLED but its future stays pending for ever and the
    listeners are never told.
(B) a communicator that has been closed (``kiwipy.CommunicatorClosed`` out of ``broadcast_send``, which is what a closed
    ``RmqThreadCommunicator`` raises) when the process reaches its terminal state: the listener is told twice
    (finished, then excepted), the future handed out earlier resolves to the outputs while the state is EXCEPTED, the
    process is never closed, the cleanups never run and ``step_until_terminated()`` raises.

Exits non-zero when (at least one of) the problems is present.
"""

import asyncio
import logging
import sys

import kiwipy

import plumpy
from plumpy import Process, ProcessListener, ProcessState

logging.getLogger('plumpy').setLevel(logging.CRITICAL)

PROBLEMS = []


def expect(condition, message):
    if not condition:
        PROBLEMS.append(message)
        print('FAIL:', message)


class Recorder(ProcessListener):
    def __init__(self):
        super().__init__()
        self.terminal = []

    def on_process_finished(self, process, outputs):
        self.terminal.append(('finished', outputs))

    def on_process_excepted(self, process, reason):
        self.terminal.append(('excepted', reason))

    def on_process_killed(self, process, msg):
        self.terminal.append(('killed', msg[plumpy.process_comms.MESSAGE_TEXT_KEY]))


class Simple(Process):
    @classmethod
    def define(cls, spec):
        super().define(spec)
        spec.outputs.dynamic = True

    async def run(self):
        self.out('answer', 42)
        return 42


def close_then_kill():
    proc = Simple()
    recorder = Recorder()
    proc.add_process_listener(recorder)
    future = proc.future()
    proc.close()  # "this process should not be run anymore [...] the state of the process will still be accessible"
    answer = proc.kill('bye')
    expect(answer is True and proc.state == ProcessState.KILLED, f'[A] kill -> {answer}, state {proc.state}')
    if proc.state == ProcessState.KILLED:
        expect(proc.killed_msg()[plumpy.process_comms.MESSAGE_TEXT_KEY] == 'bye', '[A] kill text')
        expect(proc.future().done(), '[A] process is KILLED but its future is still pending: waiters are never released')
        expect(future is proc.future(), '[A] future replaced')
        expect(recorder.terminal == [('killed', 'bye')], f'[A] listener was told {recorder.terminal} about a KILLED process')


class ClosedCommunicator(kiwipy.LocalCommunicator):
    closed = False

    def broadcast_send(self, body, sender=None, subject=None, correlation_id=None):
        if self.closed:
            raise kiwipy.CommunicatorClosed()
        return super().broadcast_send(body, sender=sender, subject=subject, correlation_id=correlation_id)


class ClosesDuringRun(Simple):
    async def run(self):
        self._communicator.closed = True  # e.g. the daemon is shutting down its communicator
        return await super().run()


def closed_communicator(loop):
    communicator = ClosedCommunicator()
    proc = ClosesDuringRun(communicator=communicator)
    recorder = Recorder()
    proc.add_process_listener(recorder)
    cleanups = []
    proc.add_cleanup(lambda: cleanups.append(1))
    early_future = proc.future()

    async def stepping():
        try:
            await asyncio.wait_for(proc.step_until_terminated(), 2)
        except BaseException as exception:
            return f'raised {exception!r}'
        return 'returned'

    outcome = loop.run_until_complete(stepping())
    expect(outcome == 'returned', f'[B] step_until_terminated() {outcome}')
    expect(proc.has_terminated(), f'[B] not terminated: {proc.state}')
    expect(len(recorder.terminal) == 1, f'[B] listener got {len(recorder.terminal)} terminal notifications: {recorder.terminal}')
    expect(proc._closed, '[B] terminated process is not closed')
    expect(cleanups == [1], f'[B] cleanups ran {len(cleanups)} times')
    if early_future.done() and not early_future.cancelled() and early_future.exception() is None:
        expect(
            proc.state == ProcessState.FINISHED,
            f'[B] the future handed out earlier resolved to {early_future.result()} but the state is {proc.state}',
        )


def main():
    loop = asyncio.new_event_loop()
    asyncio.set_event_loop(loop)
    close_then_kill()
    closed_communicator(loop)
    if PROBLEMS:
        print(f'{len(PROBLEMS)} problem(s) on this tree')
        sys.exit(1)
    print('all good')


if __name__ == '__main__':
    main()
