"""Clean-tree violations of the pause/play transparency property (C05): control requests placed in the SAME
event-loop slot (no callback runs between them) on a process that is blocked in the WAITING state.

Exits non-zero on the clean tree.
"""
import asyncio
import sys

import plumpy
from plumpy import Process, ProcessState, ToContext, WorkChain, process_states


class WaitProc(Process):
    def __init__(self, *a, **k):
        super().__init__(*a, **k)
        self.trace = []

    def run(self):
        self.trace.append('run')
        return process_states.Wait(self.after, 'waiting')

    def after(self, value=None):
        self.trace.append(('after', value))
        return value


class Chain(WorkChain):
    @classmethod
    def define(cls, spec):
        super().define(spec)
        spec.outline(cls.submit, cls.collect)

    def __init__(self, *a, **k):
        super().__init__(*a, **k)
        self.trace = []
        self.awaited = asyncio.get_event_loop().create_future()

    def submit(self):
        self.trace.append('submit')
        return ToContext(answer=self.awaited)

    def collect(self):
        self.trace.append(('collect', self.ctx.answer))


async def settle(n=10):
    for _ in range(n):
        await asyncio.sleep(0)


async def scenario(make, requests):
    """Run until WAITING, issue `requests` back to back, let things settle, then complete the run with a play()."""
    proc = make()
    task = asyncio.ensure_future(proc.step_until_terminated())
    await settle()
    assert proc.state == ProcessState.WAITING
    raised = None
    for request in requests:
        try:
            request(proc)
        except Exception as exc:  # pause()/play() must never raise
            raised = exc
    await settle()
    proc.play()
    await settle(20)
    outcome = (proc.state, list(proc.trace), raised)
    if not proc.has_terminated():
        proc.kill()
        await settle()
    task.cancel()
    return outcome


def main():
    loop = asyncio.new_event_loop()
    asyncio.set_event_loop(loop)
    loop.set_exception_handler(lambda _loop, ctx: print('  [loop exception handler]', repr(ctx.get('exception'))))
    problems = []

    pause = lambda p: p.pause()
    play = lambda p: p.play()
    resume5 = lambda p: p.resume(5)
    done42 = lambda p: p.awaited.set_result(42)

    ref = loop.run_until_complete(scenario(WaitProc, [resume5]))
    print('reference (resume only)        :', ref)
    assert ref[0] == ProcessState.FINISHED

    # (a) pause() then resume() in one slot: the waiting future already holds the interruption, resume() sees it
    #     "done" and silently drops the value -> after play() the process waits forever (continuation lost)
    got = loop.run_until_complete(scenario(WaitProc, [pause, resume5]))
    print('(a) pause, resume              :', got)
    if got[:2] != ref[:2]:
        problems.append('(a) resume() issued right after pause() is lost: ' + repr(got))

    # (b) resume() then pause() in one slot: pause() raises asyncio InvalidStateError
    got = loop.run_until_complete(scenario(WaitProc, [resume5, pause]))
    print('(b) resume, pause              :', got)
    if got[2] is not None:
        problems.append('(b) pause() raised ' + repr(got[2]))

    # (c) pause(), play(), pause() in one slot: the second pause() raises InvalidStateError
    got = loop.run_until_complete(scenario(WaitProc, [pause, play, pause, resume5]))
    print('(c) pause, play, pause, resume :', got)
    if got[2] is not None:
        problems.append('(c) pause() raised ' + repr(got[2]))

    # (d) WorkChain: the awaited future completes, then pause() in the same slot: the done-callback of the awaitable
    #     hits the already interrupted waiting future (InvalidStateError in a loop callback) and the completion is lost
    refc = loop.run_until_complete(scenario(Chain, [done42]))
    print('reference chain                :', refc)
    got = loop.run_until_complete(scenario(Chain, [done42, pause]))
    print('(d) awaitable done, pause      :', got)
    if got[:2] != refc[:2]:
        problems.append('(d) work chain never continues after play(): ' + repr(got))

    # (e) pause() then play() in one slot while WAITING: the withdrawn pause still takes effect
    proc = WaitProc()
    task = asyncio.ensure_future(proc.step_until_terminated())
    loop.run_until_complete(settle())
    proc.pause()
    proc.play()
    loop.run_until_complete(settle())
    print('(e) pause, play -> paused      :', proc.paused)
    if proc.paused:
        problems.append('(e) a pause cancelled by play() before it took effect is re-instated (process is paused)')
    proc.play(); proc.kill(); loop.run_until_complete(settle()); task.cancel()

    print()
    for problem in problems:
        print('VIOLATION', problem)
    assert not problems, f'{len(problems)} clean-tree violation(s)'


if __name__ == '__main__':
    main()
    sys.exit(0)
