"""Clean-tree findings for property C03 (exits non-zero on the CLEAN tree). See clean_tree_finding.md."""

import asyncio
import sys

import plumpy
from plumpy import ProcessState


class Boom(Exception):
    pass


failures = []


def finding_a():
    """Termination hook raising AFTER calling super: EXCEPTED, but the future still carries the FINISHED result."""

    class Proc(plumpy.Process):
        calls = 0

        def run(self):
            return 5

        def on_terminated(self):
            super().on_terminated()  # closes the process, which drops all state event hooks
            self.calls += 1
            if self.calls == 1:
                raise Boom('fault in on_terminated')

    proc = Proc()
    try:
        outcome = proc.execute()
    except Boom:
        outcome = 'raised Boom'
    print('A: state', proc.state, '| exception()', repr(proc.exception()), '| execute ->', repr(outcome),
          '| future exception', repr(proc.future().exception()))
    if not (proc.state == ProcessState.EXCEPTED and isinstance(proc.future().exception(), Boom)):
        failures.append('A: process is EXCEPTED but its future does not raise the exception (on_except never ran)')


def finding_b():
    """call_soon handle cancelled while its (async) callback is already running; the callback then raises."""

    class Proc(plumpy.Process):
        handle = None

        async def run(self):
            self.handle = self.call_soon(self.callback)
            await asyncio.sleep(0.01)
            self.handle.cancel()  # too late to stop it, it is already running
            await asyncio.sleep(0.05)
            return 'finished'

        async def callback(self):
            await asyncio.sleep(0.03)
            raise Boom('fault in a call_soon callback')

    loop = asyncio.get_event_loop()
    errors = []
    loop.set_exception_handler(lambda _l, ctx: errors.append(ctx))
    proc = Proc()
    loop.run_until_complete(proc.step_until_terminated())
    loop.run_until_complete(asyncio.sleep(0.05))
    import gc

    gc.collect()
    loop.run_until_complete(asyncio.sleep(0))
    print('B: state', proc.state, '| loop errors', [repr(e.get('exception')) for e in errors])
    if proc.state != ProcessState.EXCEPTED or errors:
        failures.append('B: exception of a running-but-cancelled call_soon callback escaped into the loop, process not EXCEPTED')
    loop.set_exception_handler(None)


def finding_c():
    """A hook raising StopIteration: Future.set_exception refuses it, the failure handling itself fails."""

    class Proc(plumpy.Process):
        def run(self):
            return 5

        def on_run(self):
            super().on_run()
            raise StopIteration('fault in on_run')

    proc = Proc()
    try:
        proc.loop.run_until_complete(proc.step_until_terminated())
        outcome = 'returned'
    except BaseException as exc:  # noqa
        outcome = f'raised {exc!r}'
    print('C: stepping', outcome, '| state', proc.state, '| closed', proc._closed)
    if outcome != 'returned' or proc.state != ProcessState.EXCEPTED:
        failures.append(f'C: stepping {outcome}; state {proc.state}')


if __name__ == '__main__':
    finding_a()
    finding_b()
    finding_c()
    for failure in failures:
        print('PROPERTY VIOLATED ON CLEAN TREE:', failure)
    sys.exit(1 if failures else 0)
