# -*- coding: utf-8 -*-
"""Clean-tree finding: a process saved with a custom object loader cannot be loaded again, unless the loader happens to
understand the identifiers of the *default* loader as well.

``Savable.save`` identifies the class of the top-level savable (the process) with the loader of the save context, but
``Savable.save_members`` saves the nested savables (``_future``, ``_event_helper`` and, when paused, ``_paused``) with
``value.save()``, i.e. without the save context, so their class names are written by the default loader.  On load
``Savable._get_value`` hands the load context (with the custom loader, either passed in or found in the bundle) to
``Savable.load`` for those nested savables, which asks the custom loader to resolve an identifier it never produced.
"""

import importlib
import sys

import plumpy


class SlashLoader(plumpy.ObjectLoader):
    """A self-contained object loader with its own identifier scheme: ``package.module/ClassName``"""

    def identify_object(self, obj):
        identifier = f'{obj.__module__}/{obj.__name__}'
        assert self.load_object(identifier) is obj
        return identifier

    def load_object(self, identifier):
        if '/' not in identifier:
            raise ValueError(f'`{identifier}` is not an identifier of {type(self).__name__}')
        module, name = identifier.split('/')
        return getattr(importlib.import_module(module), name)


class Simple(plumpy.Process):
    def run(self):
        return 5


def main():
    loader = SlashLoader()
    assert loader.load_object(loader.identify_object(Simple)) is Simple  # the loader round trips

    proc = Simple()
    first = plumpy.Bundle(proc, plumpy.LoadSaveContext(loader=loader))

    problems = []
    for label, context in (
        ('custom loader passed in the load context', plumpy.LoadSaveContext(loader=loader)),
        ('custom loader found in the bundle', None),
    ):
        try:
            loaded = first.unbundle(context)
        except Exception as exception:
            problems.append(f'{label}: loading failed with {type(exception).__name__}: {exception}')
            continue
        second = plumpy.Bundle(loaded, plumpy.LoadSaveContext(loader=loader))
        if dict(second) != dict(first) or loaded.pid != proc.pid or loaded.state != proc.state:
            problems.append(f'{label}: loaded process or second bundle differs')

    for problem in problems:
        print('VIOLATION', problem)
    print('class names in the bundle:', first['!!meta']['class_name'], '|', first['_future']['!!meta']['class_name'])
    assert not problems, 'a process saved with a custom object loader could not be loaded and saved again'
    print('OK')


if __name__ == '__main__':
    main()
    sys.exit(0)
