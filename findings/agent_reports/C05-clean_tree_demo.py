"""Pre-existing violations of the pause/play transparency property on the CLEAN tree.

Every scenario places two control requests back to back (i.e. between the same two event-loop callbacks), which the
property explicitly quantifies over.  Exits non-zero if at least one scenario violates the property.
"""

import asyncio
import sys

import plumpy
from plumpy import ProcessState


class WaitProc(plumpy.Process):
    """run -> WAITING -> (resume) -> after"""

    def __init__(self, *args, **kwargs):
        super().__init__(*args, **kwargs)
        self.trace = []

    def run(self):
        self.trace.append('run')
        return plumpy.Wait(self.after, msg='signal')

    def after(self, *args):
        self.trace.append(('after', args))
        return 5


class StepsProc(plumpy.Process):
    """async step one -> step two"""

    def __init__(self, *args, **kwargs):
        super().__init__(*args, **kwargs)
        self.trace = []

    async def run(self):
        self.trace.append('one:begin')
        await asyncio.sleep(0)
        await asyncio.sleep(0)
        self.trace.append('one:end')
        return plumpy.Continue(self.two)

    def two(self):
        self.trace.append('two')
        return 3


async def spin(n=8):
    for _ in range(n):
        await asyncio.sleep(0)


async def start_waiting():
    proc = WaitProc()
    task = asyncio.ensure_future(proc.step_until_terminated())
    for _ in range(50):
        if proc.state == ProcessState.WAITING:
            break
        await asyncio.sleep(0)
    await spin()
    assert proc.state == ProcessState.WAITING and not proc.paused
    return proc, task


async def stop(task):
    if not task.done():
        task.cancel()
        try:
            await task
        except BaseException:
            pass


async def scenario_pause_then_play_while_waiting():
    """pause(); play() while the step is blocked in WAITING: play() must cancel the pending pause"""
    proc, task = await start_waiting()
    proc.pause('x')
    assert proc.play() is True and not proc.paused
    await spin()
    problem = None
    if proc.paused:
        problem = 'play() did not cancel the pending pause: the process became paused afterwards'
    proc.play()
    proc.resume()
    try:
        await asyncio.wait_for(asyncio.shield(proc.future()), 1.0)
    except asyncio.TimeoutError:
        problem = (problem or '') + ' / did not finish'
    await stop(task)
    return problem


async def scenario_pause_then_resume_while_waiting():
    """pause(); resume(7): the resume must not be lost"""
    proc, task = await start_waiting()
    proc.pause()
    proc.resume(7)
    await spin()
    proc.play()
    problem = None
    try:
        await asyncio.wait_for(asyncio.shield(proc.future()), 1.0)
    except asyncio.TimeoutError:
        problem = f'resume() issued right after pause() was lost: after play() the process hangs in {proc.state}'
    await stop(task)
    if problem is None and proc.trace != ['run', ('after', (7,))]:
        problem = f'unexpected trace {proc.trace}'
    return problem


async def scenario_resume_then_pause_while_waiting():
    """resume(7); pause(): pause() must not raise"""
    proc, task = await start_waiting()
    proc.resume(7)
    problem = None
    try:
        proc.pause()
    except Exception as exception:
        problem = f'pause() raised {type(exception).__name__}: {exception}'
    await spin()
    proc.play()
    try:
        await asyncio.wait_for(asyncio.shield(proc.future()), 1.0)
    except asyncio.TimeoutError:
        problem = (problem or '') + ' / did not finish'
    await stop(task)
    return problem


async def scenario_play_then_pause_while_paused():
    """paused; play(); pause(): the process reports paused again, so nothing may run until the next play()"""
    proc = StepsProc()
    task = asyncio.ensure_future(proc.step_until_terminated())
    await asyncio.sleep(0)
    proc.pause()
    await spin()
    assert proc.paused and proc.trace == ['one:begin', 'one:end']
    proc.play()
    proc.pause()
    reported_paused = proc.paused
    trace = list(proc.trace)
    await spin()
    problem = None
    if reported_paused and proc.trace != trace:
        problem = f'process reported paused, yet steps {proc.trace[len(trace):]} were executed before the next play()'
    proc.play()
    await stop(task)
    return problem


def main():
    loop = asyncio.new_event_loop()
    asyncio.set_event_loop(loop)
    loop.set_exception_handler(lambda _loop, _context: None)
    failures = 0
    for scenario in (
        scenario_pause_then_play_while_waiting,
        scenario_pause_then_resume_while_waiting,
        scenario_resume_then_pause_while_waiting,
        scenario_play_then_pause_while_paused,
    ):
        problem = loop.run_until_complete(scenario())
        print(f'{scenario.__name__}: {"VIOLATION: " + problem if problem else "ok"}')
        failures += bool(problem)
    assert failures == 0, f'{failures} scenario(s) violate the pause/play transparency property'


if __name__ == '__main__':
    main()
    sys.exit(0)
