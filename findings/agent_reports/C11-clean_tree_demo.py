# -*- coding: utf-8 -*-
"""Pre-existing violations of the "only spec-conforming inputs create a process" property on the CLEAN tree.

Exits non-zero on the clean tree.  See clean_tree_finding.md.
"""

import sys

from plumpy import Process

findings = []


def plain(value):
    if hasattr(value, 'items'):
        return {k: plain(v) for k, v in value.items()}
    return value


# ---------------------------------------------------------------------------------------------------------------------
# F1. A port namespace declared with a ``default`` mapping: ``pre_process`` fills the *declared default object itself*
#     in place (and replaces its nested dicts by frozen mappings).  The declared default is therefore changed by the
#     first construction, and the second construction with the very same (accepted) inputs raises ``TypeError``.
# ---------------------------------------------------------------------------------------------------------------------
class NamespaceDefault(Process):
    @classmethod
    def define(cls, spec):
        super().define(spec)
        spec.input_namespace('ns', default={'sub': {}})
        spec.input('ns.sub.p', valid_type=int, default=5)


first = NamespaceDefault()
assert plain(first.inputs) == {'ns': {'sub': {'p': 5}}}
declared_default = NamespaceDefault.spec().inputs['ns'].default
if plain(declared_default) != {'sub': {}}:
    findings.append(f'F1a: declared namespace default changed by construction: now {declared_default!r}')
try:
    second = NamespaceDefault()
    if plain(second.inputs) != {'ns': {'sub': {'p': 5}}}:
        findings.append(f'F1b: second construction gives different inputs {plain(second.inputs)!r}')
except Exception as exc:
    findings.append(f'F1b: second construction with the same accepted inputs raised {exc!r}')


# ---------------------------------------------------------------------------------------------------------------------
# F2. ``UNSPECIFIED`` is the empty tuple ``()`` which CPython interns, so a caller passing ``()`` (or ``tuple()``) is
#     indistinguishable from "not specified": type check and validator are skipped, yet the value shows up in inputs;
#     and a required ``tuple`` port rejects the perfectly valid value ``()``.
# ---------------------------------------------------------------------------------------------------------------------
def never(value, port):
    return 'never valid'


class EmptyTuple(Process):
    @classmethod
    def define(cls, spec):
        super().define(spec)
        spec.input('i', valid_type=int, required=False)
        spec.input('v', validator=never, required=False)


try:
    proc = EmptyTuple({'i': tuple()})
    findings.append(f'F2a: int port accepted a tuple: inputs={plain(proc.inputs)!r}')
except ValueError:
    pass

try:
    proc = EmptyTuple({'v': ()})
    findings.append(f'F2b: port validator that rejects everything was skipped: inputs={plain(proc.inputs)!r}')
except ValueError:
    pass


class RequiredTuple(Process):
    @classmethod
    def define(cls, spec):
        super().define(spec)
        spec.input('t', valid_type=tuple)


assert plain(RequiredTuple({'t': (1,)}).inputs) == {'t': (1,)}
try:
    RequiredTuple({'t': ()})
except ValueError as exc:
    findings.append(f'F2c: conforming value () for a required tuple port rejected: {exc}')


# ---------------------------------------------------------------------------------------------------------------------
# F3. A namespace given a falsy non-mapping iterable ('' / [] ) is accepted as if it were an empty mapping: ``validate``
#     turns every falsy value into ``{}`` before the ``Mapping`` check, and ``AttributesFrozendict('')`` is ``{}``.
#     ``inputs`` then shows ``{}`` where ``raw_inputs`` has the non-mapping value.
# ---------------------------------------------------------------------------------------------------------------------
class Namespaces(Process):
    @classmethod
    def define(cls, spec):
        super().define(spec)
        spec.input_namespace('dyn', dynamic=True, valid_type=int)
        spec.input_namespace('static', required=False)
        spec.input('static.p', valid_type=int, required=False)


for key in ('dyn', 'static'):
    for bad in ('', []):
        try:
            proc = Namespaces({'dyn': {}, key: bad})
            findings.append(
                f'F3: namespace {key!r} accepted non-mapping {bad!r}: inputs={plain(proc.inputs)!r}, '
                f'raw_inputs={plain(proc.raw_inputs)!r}'
            )
        except (ValueError, TypeError):
            pass

# a truthy non-mapping is (rightly) refused
try:
    Namespaces({'dyn': 'ab'})
    findings.append('F3: truthy non mapping accepted')
except (ValueError, TypeError):
    pass

if findings:
    print('CLEAN TREE FINDINGS:')
    for finding in findings:
        print('  -', finding)
    sys.exit(1)

print('ok')
