"""Clean-tree violations of 'a wake-up is never lost to a concurrent pause'.

Exits non-zero on the unmodified tree.  Three interleavings, each with the wake-up and the pause request placed
in the same event-loop callback (no loop iteration in between) while a step of the process is blocked in WAITING:

  A. Process:   pause() then resume(42)            -> resume() is silently dropped, the process stays WAITING forever
  B. WorkChain: awaited futures complete, then pause() before their done-callbacks ran
                                                    -> InvalidStateError inside the done-callback, stays WAITING forever
  C. Process:   resume(42) then pause()            -> pause() raises asyncio.InvalidStateError to the caller
                                                      (the wake-up itself survives in this order)
"""

import asyncio

import plumpy
from plumpy import Process, ProcessState, WorkChain, process_states


class WaitForValue(Process):
    received = 'never called'

    def run(self):
        return process_states.Wait(self.got_value)

    def got_value(self, *args):
        self.received = args


class TwoFutures(WorkChain):
    seen = None

    @classmethod
    def define(cls, spec):
        super().define(spec)
        spec.outline(cls.start, cls.finish)

    def start(self):
        self.f1, self.f2 = asyncio.Future(), asyncio.Future()
        self.to_context(a=self.f1, b=self.f2)

    def finish(self):
        self.seen = (self.ctx.get('a'), self.ctx.get('b'))


async def ticks(count=10):
    for _ in range(count):
        await asyncio.sleep(0)


async def play_and_settle(proc):
    await ticks()
    if proc.paused:
        proc.play()
    await ticks(50)


async def case_a():
    proc = WaitForValue()
    stepper = asyncio.ensure_future(proc.step_until_terminated())
    await ticks()
    assert proc.state == ProcessState.WAITING
    proc.pause()  # a step is in flight: the waiting future gets the PauseInterruption
    proc.resume(42)  # same callback: finds the waiting future 'done' and returns without doing anything
    await play_and_settle(proc)
    stepper.cancel()
    return proc.state, proc.received, proc.paused


async def case_b():
    wc = TwoFutures()
    stepper = asyncio.ensure_future(wc.step_until_terminated())
    await ticks()
    assert wc.state == ProcessState.WAITING
    wc.f1.set_result(1)
    wc.f2.set_result(2)  # done-callbacks are scheduled, not yet run
    wc.pause()  # same callback: the waiting future gets the PauseInterruption first
    await play_and_settle(wc)
    stepper.cancel()
    return wc.state, wc.seen, wc.paused


async def case_c():
    proc = WaitForValue()
    stepper = asyncio.ensure_future(proc.step_until_terminated())
    await ticks()
    error = None
    proc.resume(42)
    try:
        proc.pause()
    except Exception as exc:  # asyncio.InvalidStateError
        error = exc
    await play_and_settle(proc)
    stepper.cancel()
    return proc.state, proc.received, error


async def main():
    failures = []

    state, received, paused = await case_a()
    print('A:', state, received, 'paused =', paused)
    if (state, received) != (ProcessState.FINISHED, (42,)):
        failures.append(f'A: pause(); resume(42) -> resumed and playing, but {state}, continuation got {received!r}')

    loop = asyncio.get_event_loop()
    loop_errors = []
    loop.set_exception_handler(lambda _loop, context: loop_errors.append(context.get('exception')))
    state, seen, paused = await case_b()
    loop.set_exception_handler(None)
    print('B:', state, seen, 'paused =', paused, 'errors in loop callbacks:', loop_errors)
    if (state, seen) != (ProcessState.FINISHED, (1, 2)):
        failures.append(f'B: all awaited futures completed and playing, but {state}, step saw {seen!r}')

    state, received, error = await case_c()
    print('C:', state, received, 'pause() raised', repr(error))
    if error is not None:
        failures.append(f'C: resume(42); pause() -> pause() raised {error!r}')

    assert not failures, '\n' + '\n'.join(failures)


if __name__ == '__main__':
    asyncio.get_event_loop().run_until_complete(main())
