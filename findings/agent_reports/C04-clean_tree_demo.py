"""Clean-tree violations of the property "a kill request is never lost and no live process is unkillable".

Runs a number of independent scenarios on the unmodified tree, prints the outcome of each one and exits non-zero if any
of them violates the property (they all do on the clean tree).
"""
import asyncio
import logging
import sys

import plumpy
from plumpy import ProcessState

logging.disable(logging.CRITICAL)


class WaitingProcess(plumpy.Process):
    def run(self):
        return plumpy.Wait(self.done, msg='waiting for a signal')

    def done(self, *_args):
        return 5


class GatedProcess(plumpy.Process):
    gate = None

    async def run(self):
        await self.gate
        return 5


async def ticks(count=8):
    for _ in range(count):
        await asyncio.sleep(0)


def describe(result):
    if asyncio.isfuture(result):
        if not result.done():
            return 'future(pending)'
        if result.cancelled():
            return 'future(cancelled)'
        return f'future({result.exception() or result.result()!r})'
    return repr(result)


async def pause_then_kill_waiting():
    """A. pause(); kill() back to back while a WAITING step is in flight: kill() raises, the kill is lost and the
    process is left paused and *unkillable* (every further kill() returns the same cancelled future)"""
    problems = []
    proc = WaitingProcess()
    task = asyncio.ensure_future(proc.step_until_terminated())
    await ticks()
    proc.pause()
    try:
        proc.kill('bye')
    except Exception as exc:
        problems.append(f'kill() raised {exc!r}')
    await ticks()
    if not proc.has_terminated():
        problems.append(f'process still live: state={proc.state} paused={proc.paused}')
        proc.play()
        await ticks()
        further = proc.kill('bye again')
        await ticks()
        if not proc.has_terminated():
            problems.append(f'further kill() returned {describe(further)} and the process is still {proc.state}')
    task.cancel()
    return problems


async def kill_then_pause_running():
    """B. kill(); pause() back to back while a RUNNING step is in flight: the kill is lost, the process FINISHES"""
    problems = []
    proc = GatedProcess()
    proc.gate = asyncio.get_event_loop().create_future()
    task = asyncio.ensure_future(proc.step_until_terminated())
    await ticks()
    result = proc.kill('bye')
    proc.pause()
    await ticks()
    proc.gate.set_result(None)
    await ticks()
    if proc.state != ProcessState.KILLED:
        problems.append(f'process ended {proc.state}, kill() gave {describe(result)}')
    task.cancel()
    return problems


async def resume_then_kill_waiting():
    """C. resume(); kill() back to back while a WAITING step is in flight: kill() raises InvalidStateError"""
    problems = []
    proc = WaitingProcess()
    task = asyncio.ensure_future(proc.step_until_terminated())
    await ticks()
    proc.resume()
    try:
        proc.kill('bye')
    except Exception as exc:
        problems.append(f'kill() raised {exc!r} (process ended {proc.state})')
    await ticks()
    task.cancel()
    return problems


async def kill_from_running_listener():
    """D. kill() issued from an on_process_running listener (during the CREATED -> RUNNING transition): lost"""
    problems = []
    proc = WaitingProcess()
    results = []
    listener = plumpy.ProcessListener()
    listener.on_process_running = lambda _p: results.append(proc.kill('bye')) if not results else None
    proc.add_process_listener(listener)
    task = asyncio.ensure_future(proc.step_until_terminated())
    await ticks()
    if proc.state == ProcessState.WAITING:
        proc.resume()
    await ticks()
    if proc.state != ProcessState.KILLED:
        problems.append(f'process ended {proc.state}, kill() gave {describe(results[0])}')
    task.cancel()
    return problems


async def kill_from_paused_listener():
    """E. kill() issued from an on_process_paused listener while the pause is carried out at the end of a step: the
    stepping task dies with InvalidStateError and the process stays WAITING"""
    problems = []
    proc = WaitingProcess()
    results = []
    listener = plumpy.ProcessListener()
    listener.on_process_paused = lambda _p: results.append(proc.kill('bye'))
    proc.add_process_listener(listener)
    task = asyncio.ensure_future(proc.step_until_terminated())
    await ticks()
    proc.pause()
    await ticks()
    if task.done() and task.exception() is not None:
        problems.append(f'stepping task died with {task.exception()!r}')
    if proc.state != ProcessState.KILLED:
        problems.append(f'process is {proc.state}, kill() gave {describe(results[0]) if results else None}')
    task.cancel()
    return problems


async def main():
    failed = 0
    for scenario in (
        pause_then_kill_waiting,
        kill_then_pause_running,
        resume_then_kill_waiting,
        kill_from_running_listener,
        kill_from_paused_listener,
    ):
        problems = await scenario()
        print(('VIOLATED ' if problems else 'ok       ') + scenario.__doc__.split(':')[0])
        for problem in problems:
            print('    - ' + problem)
        failed += bool(problems)
    return failed


if __name__ == '__main__':
    failures = asyncio.run(main())
    assert failures == 0, f'{failures} scenario(s) violate the kill property on this tree'
