"""Clean-tree finding: PicklePersister file names of (pid, tag) pairs collide, so a continue task can resume the
checkpoint of a different process than the one requested.

``PicklePersister.pickle_filename`` builds ``'{pid}.{tag}.pickle'`` / ``'{pid}.pickle'``.  The pair (pid=1, tag='2')
and the pair (pid='1.2', tag=None) (or the float pid 1.2) both map to ``1.2.pickle``.
"""

import asyncio
import sys
import tempfile

import plumpy
from plumpy import process_comms


class Tagged(plumpy.Process):
    @classmethod
    def define(cls, spec):
        super().define(spec)
        spec.outputs.dynamic = True

    def run(self):
        self.out('who', 'tagged')


class Other(plumpy.Process):
    @classmethod
    def define(cls, spec):
        super().define(spec)
        spec.outputs.dynamic = True

    def run(self):
        self.out('who', 'other')


async def main():
    with tempfile.TemporaryDirectory() as directory:
        persister = plumpy.PicklePersister(directory)
        launcher = plumpy.ProcessLauncher(persister=persister)

        # process 1 has a checkpoint with tag '2'
        persister.save_checkpoint(Tagged(pid=1), tag='2')

        # a create task (persist=True) for an unrelated process whose pid is '1.2'
        pid = await launcher(None, process_comms.create_create_body(Other, init_kwargs={'pid': '1.2'}, persist=True))
        assert pid == '1.2'

        # continue process 1 from its checkpoint '2': must resume ``Tagged``
        outputs = await launcher(None, process_comms.create_continue_body(1, tag='2', nowait=False))
        assert outputs == {'who': 'tagged'}, f'continue(pid=1, tag="2") resumed another process: {outputs}'


if __name__ == '__main__':
    asyncio.run(main())
    print('clean_tree_demo: OK')
    sys.exit(0)
