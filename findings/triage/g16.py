import asyncio, plumpy
from plumpy import process_states as ps
plumpy.set_event_loop_policy()
class H(plumpy.Process):
    seen={}
    def on_run(self): super().on_run(); self.seen['on_run']=plumpy.Process.current()
    def on_running(self): super().on_running(); self.seen['on_running']=plumpy.Process.current()
    def on_finish(self,r,s): super().on_finish(r,s); self.seen['on_finish']=plumpy.Process.current()
    def on_exit_running(self): super().on_exit_running(); self.seen['on_exit_running']=plumpy.Process.current()
    def on_output_emitting(self,p,v): self.seen['on_output_emitting']=plumpy.Process.current()
    @classmethod
    def define(cls, spec): super().define(spec); spec.outputs.dynamic=True
    def run(self):
        self.seen['run']=plumpy.Process.current(); self.out('a',1)
        self.call_soon(self.cb)
        return ps.Continue(self.two)
    def two(self): self.seen['two']=plumpy.Process.current()
    def cb(self): self.seen['cb']=plumpy.Process.current()
h=H(); h.execute()
asyncio.get_event_loop().run_until_complete(asyncio.sleep(0.01))
for k,v in h.seen.items(): print(k, v is h, v)
