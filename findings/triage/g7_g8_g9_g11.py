import asyncio, plumpy, logging
from plumpy import process_states as ps
plumpy.set_event_loop_policy()
loop=asyncio.get_event_loop()
errs=[]
loop.set_exception_handler(lambda l,c: errs.append(c.get('exception') or c.get('message')))

class B(plumpy.Process):
    async def run(self):
        await asyncio.sleep(0.05)
        return ps.Continue(self.two)
    async def two(self):
        await asyncio.sleep(0.01); return 3

# G7 pause, kill, play in one step
b=B()
async def g7():
    t=asyncio.ensure_future(b.step_until_terminated())
    await asyncio.sleep(0.01)
    p=b.pause(); k=b.kill('k'); pl=b.play()
    print('G7 pause',p,'kill',k,'play',pl)
    await asyncio.sleep(0.3)
    print('G7 state', b.state, 'killing', b.is_killing, 'task', t.done(), 'kill again', b.kill() if not b.has_terminated() else None)
    t.cancel()
loop.run_until_complete(g7())

# G8 kill from listener during end-of-step transition
class L(plumpy.ProcessListener):
    def __init__(self): super().__init__(); self.r=None; self.n=0
    def on_process_running(self, proc):
        self.n+=1
        if self.n==2:
            self.r=proc.kill('from listener'); print('G8 listener kill ->', self.r)
b=B(); l=L(); b.add_process_listener(l)
async def g8():
    t=asyncio.ensure_future(b.step_until_terminated())
    await asyncio.sleep(0.3)
    print('G8 state', b.state, 'killing', b.is_killing, 'r', l.r, 'task', t.done())
    if not b.has_terminated(): print('G8 kill again', b.kill())
    t.cancel()
loop.run_until_complete(g8())

# G9 pause then resume same tick
class W(plumpy.Process):
    def run(self): return ps.Wait(self.two)
    def two(self, v=None): self.v=v; return 3
w=W()
async def g9():
    t=asyncio.ensure_future(w.step_until_terminated())
    await asyncio.sleep(0.01)
    p=w.pause(); w.resume('val')
    await asyncio.sleep(0.05)
    print('G9 paused', w.paused, w.state)
    w.play()
    await asyncio.sleep(0.1)
    print('G9 state after play', w.state, 'task', t.done(), getattr(w,'v','<none>'))
    t.cancel()
loop.run_until_complete(g9())

# G11 cancel future
b=B()
async def g11():
    t=asyncio.ensure_future(b.step_until_terminated())
    await asyncio.sleep(0.01)
    b.future().cancel()
    await asyncio.sleep(0.3)
    print('G11 state', b.state, repr(b.exception()), 'task', t.done())
    t.cancel()
loop.run_until_complete(g11())
b=B()
async def g11b():
    b.future().cancel()
    await asyncio.sleep(0.05)
    print('G11b (not stepping) state', b.state, repr(b.exception()))
loop.run_until_complete(g11b())
print('loop errors', errs)
