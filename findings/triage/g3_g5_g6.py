import asyncio, plumpy, logging
from plumpy import process_states as ps
plumpy.set_event_loop_policy()
loop=asyncio.get_event_loop()

# A. callback fails during an async step
class A(plumpy.Process):
    async def run(self):
        def bad(): raise ValueError('cb')
        self.call_soon(bad)
        await asyncio.sleep(0.05)
        return 7
a=A()
seen=[]
a.add_state_event_callback(plumpy.base.state_machine.StateEventHook.ENTERED_STATE, lambda sm,h,s: seen.append(sm.state))
async def sc():
    t=asyncio.ensure_future(a.step_until_terminated())
    await asyncio.sleep(0.2)
    print('A task done', t.done(), t.exception() if t.done() else None)
loop.run_until_complete(sc())
print('A state', a.state, repr(a.exception()), seen)

# B. kill then pause during async Running step -> kill lost?
class B(plumpy.Process):
    async def run(self):
        await asyncio.sleep(0.05)
        return ps.Continue(self.two)
    async def two(self):
        await asyncio.sleep(0.01); return 3
b=B()
async def sb():
    t=asyncio.ensure_future(b.step_until_terminated())
    await asyncio.sleep(0.01)
    k=b.kill('k'); print('kill->',k)
    p=b.pause('p'); print('pause->',p)
    await asyncio.sleep(0.2)
    print('B state', b.state, 'paused', b.paused, 'killing', b.is_killing, 'k', k)
    print('kill again ->', b.kill('again'))
    b.play()
    await asyncio.sleep(0.2)
    print('B state', b.state, 'task', t.done())
    print('kill again ->', b.kill('again'))
    t.cancel()
loop.run_until_complete(sb())

# C. kill then pause while WAITING
class C(plumpy.Process):
    def run(self): return ps.Wait(self.two)
    def two(self): return 3
c=C()
async def scc():
    t=asyncio.ensure_future(c.step_until_terminated())
    await asyncio.sleep(0.01)
    k=c.kill('k'); print('kill->',k)
    try:
        p=c.pause('p'); print('pause->',p)
    except Exception as e: print('pause raised', type(e), e)
    await asyncio.sleep(0.1)
    print('C state', c.state, t.done())
loop.run_until_complete(scc())
