import asyncio, plumpy
from plumpy import process_states as ps
plumpy.set_event_loop_policy()
loop=asyncio.get_event_loop()
class C(plumpy.Process):
    def run(self): return ps.Wait(self.two)
    def two(self): return 3
c=C()
async def scc():
    t=asyncio.ensure_future(c.step_until_terminated())
    await asyncio.sleep(0.01)
    p=c.pause('p'); print('pause->',p)
    try:
        k=c.kill('k'); print('kill->',k)
    except Exception as e: print('kill raised', repr(e))
    await asyncio.sleep(0.1)
    print('state', c.state, 'paused', c.paused, 'killing', c.is_killing, 'task', t.done())
    try: print('kill again', c.kill())
    except Exception as e: print('kill again raised', repr(e))
    c.play(); await asyncio.sleep(0.05)
    print('after play', c.state); t.cancel()
loop.run_until_complete(scc())
