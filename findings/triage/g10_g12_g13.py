import asyncio, plumpy, logging
from plumpy import process_states as ps
plumpy.set_event_loop_policy()
loop=asyncio.get_event_loop()
errs=[]
loop.set_exception_handler(lambda l,c: errs.append(repr(c.get('exception') or c.get('message'))))

# G10 workchain: awaitable done racing with pause
class WC(plumpy.WorkChain):
    @classmethod
    def define(cls, spec):
        super().define(spec)
        spec.outline(cls.s1, cls.s2)
    def s1(self):
        self.f=asyncio.Future()
        return plumpy.ToContext(r=self.f)
    def s2(self):
        self.got=self.ctx.r
wc=WC()
async def g10():
    t=asyncio.ensure_future(wc.step_until_terminated())
    await asyncio.sleep(0.02)
    print('G10 state', wc.state)
    wc.f.set_result(42)      # completion callback scheduled
    try:
        p=wc.pause()         # interruption set on waiting future now
        print('pause->',p)
    except Exception as e: print('G10 pause raised', repr(e))
    await asyncio.sleep(0.05)
    print('G10 paused', wc.paused, wc.state, errs)
    wc.play()
    await asyncio.sleep(0.1)
    print('G10 after play', wc.state, 'task', t.done(), getattr(wc,'got',None))
    t.cancel()
loop.run_until_complete(g10())

# G12 loader meta
from plumpy import persistence, loaders
class MyLoader(loaders.DefaultObjectLoader):
    def identify_object(self, obj): return 'X|' + super().identify_object(obj)
    def load_object(self, ident):
        if ident.startswith('X|'): ident=ident[2:]
        return super().load_object(ident)
class S(persistence.Savable): pass
import sys; sys.modules['__main__'].MyLoader=MyLoader
s=S()
st=s.save(persistence.LoadSaveContext(loader=MyLoader()))
print('G12 saved', st)
try:
    o=persistence.Savable.load(st); print('G12 loaded', o)
except Exception as e: print('G12 load raised', repr(e))
try:
    print('G12 get_custom_meta', persistence.Savable.get_custom_meta(st, persistence.META__OBJECT_LOADER))
except Exception as e: print('G12 get_custom_meta raised', repr(e))

# G13 include prefix sibling
from plumpy.ports import PortNamespace, InputPort
src=PortNamespace('src')
src.create_port_namespace('base'); src['base']['x']=InputPort('x')
src.create_port_namespace('base2'); src['base2']['y']=InputPort('y'); src['base2']['z']=InputPort('z')
dst=PortNamespace('dst')
dst.absorb(src, include=['base2.y'])
def tree(ns): return {k:(tree(v) if isinstance(v,PortNamespace) else 'port') for k,v in ns.items()}
print('G13', tree(dst))
