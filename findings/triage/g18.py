import asyncio, plumpy, tempfile
plumpy.set_event_loop_policy()
class WC(plumpy.WorkChain):
    @classmethod
    def define(cls, spec):
        super().define(spec); spec.outline(cls.s1, cls.s2)
    def s1(self): self.ctx.lst=[1]
    def s2(self): self.ctx.lst.append(2)
def run(persister):
    wc=WC()
    loop=asyncio.get_event_loop()
    loop.run_until_complete(wc.step())   # created->running
    loop.run_until_complete(wc.step())   # s1 done
    persister.save_checkpoint(wc)
    out=[]
    for i in range(3):
        b=persister.load_checkpoint(wc.pid)
        p=b.unbundle(plumpy.LoadSaveContext())
        before=list(p.ctx.lst)
        p.execute()
        out.append((before, list(p.ctx.lst)))
    return out
print('inmemory', run(plumpy.InMemoryPersister()))
print('pickle  ', run(plumpy.PicklePersister(tempfile.mkdtemp())))
