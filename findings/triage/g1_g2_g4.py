import asyncio, plumpy
from plumpy import process_states as ps
plumpy.set_event_loop_policy()

# 1. Continue kwargs
class P(plumpy.Process):
    def run(self):
        return ps.Continue(self.nxt, 1, b=2)
    def nxt(self, a, b=None):
        self.got=(a,b)
p=P()
try:
    p.execute(); print("Continue kwargs got", p.got)
except Exception as e: print("Continue kwargs exc", type(e), e)

# 2. late callback after finish
class Q(plumpy.Process):
    def run(self):
        return 5
q=Q(); q.execute(); print("state", q.state)
def bad(): raise RuntimeError('late')
loop=asyncio.get_event_loop()
try:
    q.call_soon(bad)
    loop.run_until_complete(asyncio.sleep(0.01))
except Exception as e: print('exc', type(e), e)
print("after late cb state", q.state)

# 2b. fail() directly on finished
q=Q(); q.execute()
try:
    q.fail(RuntimeError('x'), None)
except Exception as e: print('fail exc', type(e), e)
print("after fail state", q.state)

# 3. kill while paused: stepping task hangs?
class W(plumpy.Process):
    def run(self):
        return ps.Wait(self.nxt)
    def nxt(self): return 1
w=W()
async def sc():
    t=asyncio.ensure_future(w.step_until_terminated())
    await asyncio.sleep(0.01)
    print('pause ->', w.pause(), w.state, w.paused)
    await asyncio.sleep(0.01)
    print('kill ->', w.kill('bye'), w.state)
    await asyncio.sleep(0.05)
    print('task done?', t.done())
    t.cancel()
loop.run_until_complete(sc())
