#!/venv/bin/python
"""Evaluate a seeded breaking change against the checks (never part of a check).

usage: eval_seed.py <patch.diff> <demo.py> [--prop Cxx] [--no-tests]

1. copies /repo's src/ and tests/ into a fresh temporary directory and applies the patch there,
2. runs the demonstration against the clean tree (must exit 0) and against the patched copy (must exit non-zero),
3. runs the repository's offline test suite against the patched copy (must still pass),
4. runs every property's quick check with --repo <patched copy> and reports which ones fire.
The temporary directory is removed before returning.
"""
import contextlib
import io
import json
import os
import shutil
import subprocess
import sys
import tempfile

sys.path.insert(0, os.path.dirname(os.path.dirname(os.path.abspath(__file__))))
sys.dont_write_bytecode = True


def main(argv):
    patch, demo = os.path.abspath(argv[0]), os.path.abspath(argv[1])
    no_tests = '--no-tests' in argv
    tmp = tempfile.mkdtemp(prefix='plumpy_seed_eval_')
    res = {'patch': patch, 'demo': demo}
    try:
        shutil.copytree('/repo/src', os.path.join(tmp, 'src'))
        shutil.copytree('/repo/tests', os.path.join(tmp, 'tests'))
        for f in ('pyproject.toml',):
            if os.path.exists(os.path.join('/repo', f)):
                shutil.copy(os.path.join('/repo', f), tmp)
        p = subprocess.run(['patch', '-p1', '-d', tmp, '-i', patch, '--no-backup-if-mismatch'], capture_output=True, text=True)
        res['patch_applies'] = p.returncode == 0
        if p.returncode != 0:
            res['patch_error'] = (p.stdout + p.stderr)[-500:]
            print(json.dumps(res, indent=1))
            return 2
        env_clean = dict(os.environ, PYTHONPATH='/repo/src', PYTHONDONTWRITEBYTECODE='1')
        env_patched = dict(os.environ, PYTHONPATH=os.path.join(tmp, 'src'), PYTHONDONTWRITEBYTECODE='1')
        c = subprocess.run(['/venv/bin/python', demo], capture_output=True, text=True, env=env_clean, timeout=300, cwd=tmp)
        q = subprocess.run(['/venv/bin/python', demo], capture_output=True, text=True, env=env_patched, timeout=300, cwd=tmp)
        res['demo_clean_rc'], res['demo_patched_rc'] = c.returncode, q.returncode
        res['demo_patched_tail'] = (q.stdout + q.stderr).strip().splitlines()[-3:]
        if c.returncode != 0:
            res['demo_clean_tail'] = (c.stdout + c.stderr).strip().splitlines()[-5:]
        if not no_tests:
            t = subprocess.run(['/venv/bin/python', '-m', 'pytest', '-q', '-p', 'no:cacheprovider', '--ignore=tests/rmq', '-x'], capture_output=True, text=True,
                               env=env_patched, timeout=1200, cwd=tmp)
            last = [l for l in t.stdout.strip().splitlines() if 'passed' in l or 'failed' in l or 'error' in l]
            res['tests'] = last[-1] if last else t.stdout[-200:]
            res['tests_pass'] = t.returncode == 0
        from plumpy_sa.cli import run_property
        from plumpy_sa.model import AnalysisError
        os.environ['PLUMPY_SA_NO_EVIDENCE'] = '1'
        fired, errors, detail = [], [], {}
        for i in range(1, 21):
            pid = f'C{i:02d}'
            buf = io.StringIO()
            with contextlib.redirect_stdout(buf):
                try:
                    rc = run_property(pid, 'quick', repo=tmp)
                except AnalysisError as exc:
                    print(f'ANALYSIS-ERROR {exc}')
                    rc = 2
                except Exception as exc:  # noqa: BLE001
                    print(f'ANALYSIS-ERROR uncaught {exc!r}')
                    rc = 2
            if rc == 1:
                fired.append(pid)
                detail[pid] = [l.strip()[:260] for l in buf.getvalue().splitlines() if l.startswith('  ')][:4]
            elif rc == 2:
                errors.append(pid)
                detail[pid] = [l.strip()[:260] for l in buf.getvalue().splitlines() if 'ANALYSIS-ERROR' in l][:2]
        res['checks_fired'], res['checks_error'], res['detail'] = fired, errors, detail
        print(json.dumps(res, indent=1))
        return 0
    finally:
        shutil.rmtree(tmp, ignore_errors=True)


if __name__ == '__main__':
    sys.exit(main(sys.argv[1:]))
