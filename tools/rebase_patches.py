#!/venv/bin/python
"""Re-generate stored patches (seeded/*/patch.diff, refactorings/*.diff) that no longer apply exactly to /repo's tree because a
fix: commit touched neighbouring lines: apply with fuzz in a scratch copy, check the result compiles, re-diff (helper, not a check)."""
import glob, os, shutil, subprocess, sys, tempfile
HERE = os.path.dirname(os.path.dirname(os.path.abspath(__file__)))
for p in sorted(glob.glob(HERE + '/seeded/*/patch.diff') + glob.glob(HERE + '/refactorings/*.diff')):
    t = tempfile.mkdtemp(prefix='plumpy_rebase_')
    try:
        shutil.copytree('/repo/src', t + '/a/src'); shutil.copytree('/repo/tests', t + '/a/tests')
        r = subprocess.run(['patch', '-p1', '-d', t + '/a', '-i', p, '--no-backup-if-mismatch', '-s', '-F', '0', '--dry-run'], capture_output=True, text=True)
        if r.returncode == 0:
            continue
        shutil.copytree(t + '/a', t + '/b')
        r = subprocess.run(['patch', '-p1', '-d', t + '/b', '-i', p, '--no-backup-if-mismatch', '-s', '-F', '3'], capture_output=True, text=True)
        if r.returncode != 0:
            print('CANNOT REBASE', p, (r.stdout + r.stderr)[-300:]); continue
        c = subprocess.run(['/venv/bin/python', '-m', 'compileall', '-q', t + '/b/src'], capture_output=True, text=True)
        d = subprocess.run(['diff', '-ruN', 'a', 'b'], cwd=t, capture_output=True, text=True).stdout
        out = []
        for ln in d.splitlines():
            if ln.startswith('diff -ruN a/'):
                f = ln.split()[2][2:]
                out.append(f'diff --git a/{f} b/{f}')
            elif ln.startswith('--- a/') or ln.startswith('+++ b/'):
                out.append(ln.split('\t')[0])
            else:
                out.append(ln)
        open(p, 'w').write('\n'.join(out) + '\n')
        print('rebased', os.path.relpath(p, HERE), 'compiles' if c.returncode == 0 else 'DOES NOT COMPILE')
    finally:
        shutil.rmtree(t, ignore_errors=True)
