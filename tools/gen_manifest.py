#!/venv/bin/python
"""Regenerate MANIFEST.json from the per-property table below (single source of truth)."""
import json
import os
import subprocess

HERE = os.path.dirname(os.path.dirname(os.path.abspath(__file__)))

# property -> (technique, level text, level note)
CHECKS = {}


def reg(pid, technique, text, note):
    CHECKS[pid] = (technique, text, note)


exec(open(os.path.join(HERE, 'tools', 'manifest_table.py')).read())

fix_commits = subprocess.run(['git', '-C', '/repo', 'log', '--format=%H %s'], capture_output=True, text=True).stdout
fix_commits = [l.split()[0] for l in fix_commits.splitlines() if l.split(' ', 1)[1].startswith('fix:')]

man = {
    'version': 1,
    'setup_cmd': '/venv/bin/python -m compileall -q plumpy_sa >/dev/null 2>&1 || true',
    'hooks': {
        'guard': 'AIIDATEAM_PLUMPY_VERIF',
        'enable': 'none needed: static analysis reads /repo/src/plumpy as it is; the guard name is reserved and unused '
                  '(no instrumentation was added to aiidateam/plumpy)',
        'baseline_off_cmd': 'cd /repo && /venv/bin/python -m pytest -ra -q -p no:cacheprovider --timeout=900 '
                            '--continue-on-collection-errors',
        'source_commits': fix_commits,
        'add_only': True,
    },
    'engines': [{
        'name': 'plumpy_sa',
        'path': 'plumpy_sa/',
        'serves_properties': sorted(CHECKS),
        'kind_free_text': 'repository-specific static analyser on stdlib ast: program model with C3 MRO, statement CFG '
                          '(finally bodies duplicated per exit kind), callee resolution and effect summaries, must-fact '
                          'dataflow inside interleaving-free regions, typestate / ownership / provenance / table rules',
    }],
    'checks': [],
    'notes': 'Every check decides NECESSARY-condition clauses of its property from the source text of the current '
             'working tree (see DESIGN.md section 3 per property, including what is not decided). exit 2 + '
             'ANALYSIS-ERROR means the analysis could not find its way around the code (fail-closed), not a verdict. '
             'source_commits lists genuine-defect repairs ("fix:" commits), there are no hook commits. Measured on 563 behaviour-preserving variants and 360 seeded '
             'breaking changes written by independent sub-agents over eleven rounds (DESIGN.md 9.6-9.16): all seeds reported by the check of the property they break; all variants '
             'silent except 27 variant x property pairs answered "cannot read" (refactorings/UNREADABLE.json) and no listed unrepaired false alarm (refactorings/OPEN.json is empty); the full corpus (about 11 900 entries) is as expected.',
    'not_applicable': [],
}
for pid in [f'C{i:02d}' for i in range(1, 21)]:
    if pid in CHECKS:
        tech, text, note = CHECKS[pid]
        man['checks'].append({
            'property_id': pid,
            'quick_cmd': f'./check {pid} --tier quick',
            'thorough_cmd': f'./check {pid} --tier thorough',
            'evidence_file': f'/verif/evidence/{pid}.json',
            'replay_cmd_template': f'./check {pid} --replay {{path}}',
            'engine': 'plumpy_sa',
            'level_claimed': {'category': 'other', 'text': text, 'design_ref': f'DESIGN.md section 3, {pid}'},
            'level_note': note,
            'technique': tech,
        })
    else:
        man['not_applicable'].append({'property_id': pid, 'reason': 'static check not built yet in this session (planned, see DESIGN.md section 3)'})
with open(os.path.join(HERE, 'MANIFEST.json'), 'w') as fh:
    json.dump(man, fh, indent=1)
print('checks:', len(man['checks']), 'not_applicable:', len(man['not_applicable']))
