#!/venv/bin/python
"""Run every check on behaviour-preserving variants (patches left by refactoring sub-agents): nothing may fire."""
import contextlib, glob, io, json, os, shutil, subprocess, sys, tempfile
sys.path.insert(0, os.path.dirname(os.path.dirname(os.path.abspath(__file__))))
sys.dont_write_bytecode = True
from plumpy_sa.cli import run_property
from plumpy_sa.model import AnalysisError
os.environ['PLUMPY_SA_NO_EVIDENCE'] = '1'
bad = 0
for patch in sorted(sum((glob.glob(f'{d}/refac/patch*.diff') for d in sys.argv[1:]), [])):
    tmp = tempfile.mkdtemp(prefix='plumpy_refac_eval_')
    try:
        shutil.copytree('/repo/src', os.path.join(tmp, 'src'))
        p = subprocess.run(['patch', '-p1', '-d', tmp, '-i', patch, '--no-backup-if-mismatch'], capture_output=True, text=True)
        if p.returncode != 0:
            print(patch, 'PATCH-FAILED'); continue
        fired = {}
        for i in range(1, 21):
            pid = f'C{i:02d}'
            buf = io.StringIO()
            with contextlib.redirect_stdout(buf):
                try:
                    rc = run_property(pid, 'quick', repo=tmp)
                except AnalysisError as exc:
                    print(f'ANALYSIS-ERROR {exc}'); rc = 2
                except Exception as exc:
                    import traceback; traceback.print_exc(file=buf); rc = 2
            if rc:
                fired[pid] = (rc, [l.strip()[:300] for l in buf.getvalue().splitlines() if l.startswith('  ') or 'ANALYSIS-ERROR' in l or 'Error' in l][:3])
        tag = 'ok' if not fired else 'FALSE-ALARM'
        bad += bool(fired)
        print(f'{os.path.relpath(patch, "/tmp/refac")}: {tag} {json.dumps(fired, indent=1) if fired else ""}')
    finally:
        shutil.rmtree(tmp, ignore_errors=True)
print('variants with alarms:', bad)
