#!/venv/bin/python
"""Which rule instances has the must-fire corpus ever made fail?  (quality metric for the checker, not part of any check)

For every property: the set of (rule, kind) pairs among the obligations discharged on the clean tree, minus the set of
(rule, kind) pairs reported as violations by at least one must-fire corpus entry = rule instances no corpus entry has
shown able to fire.  Kinds are cut at the first ':' (per-context / per-field suffixes)."""
import json, os, sys
HERE = os.path.dirname(os.path.dirname(os.path.abspath(__file__)))
sys.path.insert(0, HERE)
sys.dont_write_bytecode = True
from plumpy_sa import selftest

props = [a for a in sys.argv[1:] if a.startswith('C')] or [f'C{i:02d}' for i in range(1, 21)]
res = selftest.run(props=props, jobs=int(os.environ.get('SELFTEST_JOBS', '14')))
fired = {}
for r in res:
    if r['expect'] == 'fire':
        for k in r.get('fired', []):
            fired.setdefault(r['prop'], {}).setdefault(k, []).append(r['id'])
tot = unt = 0
for p in props:
    ev = json.load(open(os.path.join(HERE, 'evidence', p + '.json')))
    obs = ev.get('coverage', {}).get('samples') or []
    kinds = sorted({f"{o['rule']}[{str(o.get('kind', '')).split(':')[0]}]" for o in obs})
    un = [k for k in kinds if k not in fired.get(p, {})]
    tot += len(kinds); unt += len(un)
    print(f'{p}: {len(kinds)} rule instances, {len(un)} never seen firing: {un}')
print(f'total {tot}, never seen firing {unt}')
