#!/venv/bin/python
"""Print the DESIGN.md table of seeded changes from seeded/*/meta.json (documentation helper, not part of any check)."""
import glob, json, os, re
HERE = os.path.dirname(os.path.dirname(os.path.abspath(__file__)))
print('| seed | change (as disguised by its author) | fires | rule instance of the own check that reports it |')
print('|---|---|---|---|')
for mp in sorted(glob.glob(os.path.join(HERE, 'seeded', '*', 'meta.json'))):
    m = json.load(open(mp))
    own = m['property']
    rep = (m.get('first_reports', {}).get(own) or [''])[0]
    mm = re.search(r'(?:^| )(\S+) -- ([A-Za-z-]+) \[([^\]]+)\]', rep)
    inst = f'`{mm.group(2)}[{mm.group(3)}]` at `{mm.group(1)}`' if mm else '(none)'
    title = re.sub(r'^(Change|Seed)\s*\d+\s*(--|—|-|:)\s*', '', m.get('title', '')).replace('|', '/')
    print(f"| {m['seed']} | {title[:150]} | {', '.join(m.get('checks_that_fire', []))} | {inst} |")
