#!/bin/sh
# eval_seeds.sh Cxx [Cyy ...]  -- evaluate the seeded changes the sub-agents left in /tmp/seed/<id>/seed (not part of any check)
for p in "$@"; do
  for i in 1 2 3; do
    d=/tmp/seed/$p/seed
    [ -f $d/patch$i.diff ] && [ -f $d/demo$i.py ] || continue
    /venv/bin/python /verif/tools/eval_seed.py $d/patch$i.diff $d/demo$i.py > /tmp/seed/results/$p-$i.json 2>/tmp/seed/results/$p-$i.err
    /venv/bin/python - "$p" "$i" <<'PY'
import json, sys
p, i = sys.argv[1], sys.argv[2]
try:
    r = json.load(open(f'/tmp/seed/results/{p}-{i}.json'))
except Exception as e:
    print(p, i, 'EVAL-ERROR', e); sys.exit()
own = p in r.get('checks_fired', [])
print(f"{p}-{i}: applies={r.get('patch_applies')} demo clean/patched={r.get('demo_clean_rc')}/{r.get('demo_patched_rc')} tests={'ok' if r.get('tests_pass') else r.get('tests')} "
      f"fired={r.get('checks_fired')} errors={r.get('checks_error')} -> {'CAUGHT by own check' if own else ('caught by other' if r.get('checks_fired') else 'MISSED')}")
PY
  done
done
