#!/venv/bin/python
"""import_seeds.py <root> <offset> Cxx [Cyy ...] -- take the changes a sub-agent left in <root>/<Cxx>/seed/{patch,demo,notes}<i>.*,
confirm each (demo 0 on the clean tree, non-zero with the change, suite passes with the change) and only then store it as
/verif/seeded/<Cxx>-<i+offset>/ (documentation/evaluation helper, not part of any check)."""
import json, os, shutil, subprocess, sys
HERE = os.path.dirname(os.path.dirname(os.path.abspath(__file__)))
root, off = sys.argv[1], int(sys.argv[2])
for p in sys.argv[3:]:
    for i in (1, 2, 3):
        d = os.path.join(root, p, 'seed')
        pf, df, nf = (os.path.join(d, f'{n}{i}.{e}') for n, e in (('patch', 'diff'), ('demo', 'py'), ('notes', 'md')))
        if not (os.path.exists(pf) and os.path.exists(df)):
            continue
        sid = f'{p}-{i + off}'
        dst = os.path.join(HERE, 'seeded', sid)
        if os.path.exists(dst):
            print(sid, 'already stored'); continue
        st = os.path.join(HERE, 'out', 'staging', sid)
        shutil.rmtree(st, ignore_errors=True); os.makedirs(st)
        shutil.copy(pf, os.path.join(st, 'patch.diff')); shutil.copy(df, os.path.join(st, 'demo.py'))
        if os.path.exists(nf):
            shutil.copy(nf, os.path.join(st, 'notes.md'))
        r = subprocess.run(['/venv/bin/python', os.path.join(HERE, 'tools', 'eval_seed.py'), os.path.join(st, 'patch.diff'), os.path.join(st, 'demo.py')], capture_output=True, text=True)
        try:
            res = json.loads(r.stdout[r.stdout.index('{'):])
        except Exception as e:
            print(sid, 'EVAL-ERROR', e, r.stderr[-300:]); continue
        ok = res.get('patch_applies') and res.get('demo_clean_rc') == 0 and res.get('demo_patched_rc') not in (0, None) and res.get('tests_pass')
        fired = res.get('checks_fired', [])
        print(f"{sid}: confirmed={bool(ok)} demo={res.get('demo_clean_rc')}/{res.get('demo_patched_rc')} tests={res.get('tests')} fired={fired} errors={res.get('checks_error')} -> "
              + ('OWN' if p in fired else ('other' if fired else 'MISSED')))
        if ok:
            shutil.move(st, dst)
        else:
            print('   NOT STORED:', json.dumps({k: res.get(k) for k in ('patch_error', 'demo_clean_tail', 'demo_patched_tail', 'tests')})[:600])
