NOTE = ('Trusted base: CPython ast parse = the program that runs; single-threaded asyncio (atomic-region lemma); '
        'kiwipy.capture_exceptions as in kiwipy 0.8.5; user subclasses call super() in hooks and do not raise '
        'Interruption. Decides necessary conditions only; see "Not decided" in DESIGN.md for this property.')

reg('C01', 'static analysis: constant-table comparison (LABEL/ALLOWED vs lifecycle graph), attribute-writer ownership, '
    'CFG must-pass-through (exit check before every state entry), must-fact dataflow killed at awaits/uncontrolled calls '
    '(every transition site guarded by not-terminated in the same interleaving-free region, per calling context)',
    'For all schedules: no transition_to site can run on a terminated process, the ALLOWED tables add no edge outside the '
    'lifecycle graph, the exit check dominates every state entry and only StateMachine writes the state. Covers code and '
    'interleavings no offline test executes.', NOTE)
