NOTE = ('Trusted base: CPython ast parse = the program that runs; single-threaded asyncio (atomic-region lemma); '
        'kiwipy.capture_exceptions as in kiwipy 0.8.5; user subclasses call super() in hooks and do not raise '
        'Interruption. Decides necessary conditions only; see "Not decided" in DESIGN.md for this property.')

reg('C01', 'static analysis: constant-table comparison (LABEL/ALLOWED vs lifecycle graph), attribute-writer ownership, '
    'CFG must-pass-through (exit check before every state entry), must-fact dataflow killed at awaits/uncontrolled calls '
    '(every transition site guarded by not-terminated in the same interleaving-free region, per calling context)',
    'For all schedules: no transition_to site can run on a terminated process, the ALLOWED tables add no edge outside the '
    'lifecycle graph, the exit check dominates every state entry and only StateMachine writes the state. Covers code and '
    'interleavings no offline test executes.', NOTE)

reg('C04', 'static analysis: must-fact dataflow on kill()\'s guard ladder; provenance of the deferred-kill wiring (action, cookie, alias, message); '
    'CFG must-pass-through for the end-of-step dispatch; alias discipline at every site that replaces/cancels the interrupt action; '
    'future typestate (unguarded multi-writer, external canceller); kill-on-cancel registration at every creation/restoration of the process future',
    'For all schedules: which sites may cancel a pending kill, whether kill()\'s direct/deferred branches hold their guards in one '
    'interleaving-free region, whether the kill text and KILLED label reach the state, whether the cancel hook is wired. Liveness over all '
    'programs is not decided.', NOTE)
reg('C06', 'static analysis: future typestate -- every writer role of the waiting future classified fresh/guarded/guarded-drop/unguarded by '
    'must-facts; decision table "while pending every path of resume(v) hands v to the future"; nullable-location rule (every direct use of a lazily created future knows it exists); '
    'pause-gate / pause-ladder / play pairing obligations shared with C05; registration of completion callbacks',
    'For all interleavings of resume / interrupt / awaitable completion: a writer that raises or drops when it comes second exists iff a site is '
    'unguarded or guarded-drop. Liveness beyond these conflicts is not decided.', NOTE)
reg('C13', 'static analysis: dispatch-ladder exhaustiveness over Command subclasses, forwarding completeness (every captured constructor field '
    'reaches the next state with the right star-kind), save/load key symmetry of the state payloads, decision table for resume-value delivery, copy-at-save provenance of the pending call\'s arguments; event-guard isinstance rule; **kwargs capture by named parameters on the forwarding chain; stored-command completeness; NULL sentinel equality',
    'For all argument choices: a captured field that is never forwarded, a command without a branch, a wrong constant label or a payload that is '
    'not persisted is found from the shape of the code.', NOTE)
reg('C20', 'static analysis: exactly-once typestate by enumeration of every acyclic CFG path of each adapter callback; run-once guard facts; cancellation-delivered rule (every await / result() in an adapter is covered by a CancelledError handler that resolves the output future); capture_exceptions with ignore= is not a container',
    'For every nesting/outcome/order: each path through each adapter resolves the output future exactly once (result, captured exception, cancel '
    'or re-registration); cancelled() is tested before result(); CancellableAction runs only while pending, inside capture_exceptions(self).', NOTE)

reg('C02', 'static analysis: dispatch-ladder exhaustiveness (entering/entered hooks per state), writer ownership of the process future, CFG '
    'exactly-once on every non-raising path (future resolution, terminal listener event, close), provenance of reported values, '
    'call-graph reachability of a resolver for every future step() blocks on, per-item handler isolation of the cleanups; hooks-outlive-transitions (the callback table is cleared only where the process is known terminated), in-flight step release (FUT wait-release over the state\'s own awaits), listener-set idempotence',
    'For all schedules: who may resolve the process future and with what, one terminal notification per path, on_terminated iff terminal, cleanups '
    'at most once, and every way into a terminal state releases the stepping task. Agreement of the views at every point is otherwise not decided.', NOTE)
reg('C05', 'static analysis: CFG dominance (pause gate before the state\'s execute), must-fact guard ladder of pause(), must-pass-through of the '
    'deferred step\'s transition, save-before-overwrite / restore pairing of the status, resolve-and-clear discipline of the pause future; must-fact \'not paused\' at the execute site (gate re-checked after every wake-up); withdrawn-pause and externally-cancelled-action obligations at the runner sites of step()',
    'For all placements of pause/play: nothing runs while paused (gate dominates execute), pause() cannot run in the middle of a step or twice, the '
    'in-flight step is entered, status is restored, play() un-pauses and cancels a pending pause. Equality with the uninterrupted run is not decided.', NOTE)

reg('C07', 'static analysis: save/load symmetry -- reference table of persisted fields vs auto_persist sets along the MRO, key<->attribute binding on both '
    'sides by reaching definitions, key agreement per class, load-context reads supplied or guarded, super() on all CFG paths, defaults-before-restore '
    'ordering, copy-at-save provenance, YAML tag agreement, call-graph effect rule (no user callable reachable below any load_instance_state / recreate_*), provenance of the class identifier',
    'For every process/workchain shape: a field that stops being persisted, a key written but never read (or read into another attribute), an override that '
    'skips super(), a default that clobbers a restored member or an aliasing save is found from the code. Equality of the two bundles is not decided.', NOTE)
reg('C08', 'static analysis: stepper persistence table, sibling agreement of create_stepper/recreate_stepper (class, child selector, load-context keywords), '
    'dominance of the position restore over its use, continuation-by-name symmetry; persisted-field table, load-determinism effect rule and snapshot-isolation provenance shared with C07 / C14',
    'For every outline and crash point: the interpreter position and live child are persisted under matching keys, the child restored is the one the running '
    'stepper would create, continuations are re-bound by name. That the resumed run equals the reference run is not decided.', NOTE)
reg('C19', 'static analysis: provenance of the per-class auto_persist set, member-kind tag table (save_members vs _get_value), loader-precedence must-facts, '
    'CFG must-pass (every return either hands back a context that carries a loader or has consulted the saved state), writer/reader key-path agreement of the meta helpers, error-type discipline of load_object, dispatch over future states; persist hook per object, classmethod auto_persist on the class\'s own set, all bases\' members inherited, recreate_from restores declared members, nested saves pass the save context, outcome reads after a cancelled() test',
    'For every Savable shape and loader configuration: tags written are the tags reversed, the loader recorded is found and used as an instance, precedence is '
    'context > saved state > default, unknown classes are ValueError, futures have a branch per state. Value round trip through deepcopy is not decided.', NOTE)

reg('C03', 'static analysis: inter-procedural exception-containment analysis over the resolved call graph (first containing handler / capture_exceptions '
    'on every upward call chain from every uncontrolled call site, with sink classification and task-boundary roots), finally-pairing of '
    'flags, must-facts on the construction re-raise, provenance of the EXCEPTED state payload, future typestate of the EXCEPTED entry (shared with C02); in-flight step release shared with C02; every failure handler of step() builds EXCEPTED; the failing-callback report goes to a reference no sibling clears',
    'For every hook / user function and every occurrence: no exception raised by uncontrolled code can reach a coroutine or done-callback plumpy hands to the '
    'loop, each kind of user code is caught first by the sink the property names, flags are reset on every exit, failure states carry exactly the caught exception.', NOTE)
reg('C18', 'static analysis: push/restore pairing on the CFG of EVERY function that installs a process stack (restore on every exit, exceptional ones included; copy-on-push, copy-on-pop), ownership of the context variable, scope reachability '
    'over upward call chains from every uncontrolled call site that runs process code',
    'For every interleaving: which user code of a process can run without a "with _process_scope()" on its call chain is a call-graph fact. Assumes per-task '
    'copies of context variables.', NOTE)

reg('C09', 'static analysis: CFG path rules on the outline interpreter (first-true-wins reachability in _IfStepper, predicate re-evaluation dominance in '
    '_WhileStepper, continue-condition and branch placement in _do_step, step-by-one sequencing), handler discipline for return propagation, caller ownership '
    'of predicate/step calls',
    'Decides these clauses for every outline and valuation: no later predicate is evaluated after a true one, while_ re-evaluates before each iteration, '
    'return_ cannot be swallowed below _do_step, a block advances by exactly one finished instruction, a non-None value stops the chain. It does NOT decide the '
    'order of calls over all nested outlines (interpreter correctness).', NOTE)
reg('C10', 'static analysis: must-facts for the barrier guard (wake-up control-dependent on the awaiting map being empty after the pop), CFG must-pass rules '
    'for registration and context writes, hand-up rule for nested steppers (the child\'s value reaches _do_step unchanged), exception-containment trace of an awaited failure; cancellation-delivered typestate for the done-callback; registration on every path and registry indexed by key; outcome read on every path',
    'For every number of awaited items and completion order: the wake-up site is reachable only under "nothing awaited any more", registrations reach the WAITING '
    'state, a failed awaitable becomes the EXCEPTED state. The unguarded future writes are C06\'s findings.', NOTE)

reg('C11', 'static analysis: error-discipline rule on the CFG of every validate*/validator call site (verdict tested on every path, error branch returns/raises it), '
    'provenance of the mapping handed to the in-place default filler, read-only shape of the frozen mappings (bases, mutator ownership), must-facts on '
    'required_override and default evaluation; decision tables over Port.validate / PortNamespace.validate (required, type, validator asked on every accepting path, non-mapping namespace value), sentinel uniqueness, spec-owned default never filled in place',
    'For every spec and input: no validation verdict can be dropped, construction raises on an error, the caller\'s dictionary and raw_inputs are never handed to code '
    'that mutates its argument, Frozendict has no mutator, a default always clears "required". The acceptance function itself is not decided.', NOTE)
reg('C12', 'static analysis: dominance of every store that can reach the outputs mapping (alias closure through setdefault) by the validation-error test that raises, '
    'writer ownership of the outputs, provenance of the downgrade state (same result, constant successful=False), must-facts on when spec validation runs; constraints inherited by on-the-fly sub-namespaces; implicit namespaces independent of the declared port; shared sentinel / non-mapping obligations',
    'For every output spec and emission sequence: nothing is written into the outputs before the verdict was examined, nobody else mutates them, listeners are told exactly '
    'when stored, the downgrade keeps the result and is entered by transition_to. Which values the spec accepts is not decided.', NOTE)

reg('C14', 'static analysis: provenance of what the persisters store and hand out (deep copy / serialisation on save, fresh object on load), sibling agreement '
    'on one (pid, tag) key function with argument order, handler pairing for idempotent delete; injectivity of the file-name function; copy-protocol overrides return new objects',
    'For every history: isolation of a snapshot from the live process AND from a process continued from a loaded bundle is a provenance fact of save/load; save, '
    'load and delete address the same key; deletes tolerate a missing key and touch one key/pid. Observational equivalence of the two persisters is not decided.', NOTE)
reg('C15', 'static analysis: provenance of every value stored into the destination namespace (copy.copy/deepcopy of the source port; fresh container for a shallow '
    'copy), segment-exactness of every rule/name comparison (equality, membership or startswith of a separator-terminated prefix), dominance of the mutual-exclusion '
    'test over all mutations, forwarding of rules and options; decision table over absorb (skipped iff excluded / not included; empty include selects nothing), destination namespace merged not replaced, options dictionary not consumed in place, setters without cross-writes, sibling rejection tests agree',
    'For every port tree and rule set: a prefix comparison that is not separator-terminated, a port stored uncopied, a shared container or dropped/unchecked options '
    'are found from the code. The selected set beyond segment-exactness is not decided.', NOTE)

reg('C16', 'static analysis: dispatch-table comparison of the RPC and broadcast handlers with the direct calls and with MessageBuilder / controllers, sibling '
    'agreement of the two handlers, CFG exactly-once and provenance of the state_changed announcement (sender, <from>.<to> order), handler coverage of the '
    'tolerated broadcast failures, subscribe/cleanup pairing, regex folding of the broadcast filter, parameter forwarding of LoopCommunicator; decision-table dispatch (effective call per intent on every path), every message scheduled with its own reply future, cancellation delivered to the reply, subscriptions only for live processes (also after a load)',
    'For every message sequence: each intent maps to the same call with the same arguments as a direct caller\'s; one announcement per transition with the right '
    'subject and sender; tolerated failures are caught; every subscription has its cleanup. Equivalence with the directly controlled twin is not decided.', NOTE)
reg('C17', 'static analysis: task-type dispatch exhaustiveness with a rejecting fallthrough, key/parameter agreement between the body builders and the handlers they '
    'are **-expanded into, must-pass rejection guards before construction/load, must-facts and ordering for persist-before-run and nowait replies, provenance of '
    'the loader and load context; decision-table task dispatch; class constructed = what this launcher\'s loader returns on every path; snapshot isolation and loader precedence shared with C14 / C19',
    'For every flag combination: a create task cannot step, persist precedes stepping, continue loads exactly (pid, tag), a missing persister rejects before anything '
    'happens, the configured loader is the one used for classes and in the load context.', NOTE)

# ---- additions of rounds 4 and 5 (appended to the technique text of each property)
_ADD = {
    'C01': 'state table built per class (own-class lookup of the "built" flag); cleanup isolation inside the terminal transition (shared with C02); tolerated communicator failures of the state-change announcement (shared with C16); a failing scheduled callback fails the process through the guarded event at once, nothing deferred (shared with C03)',
    'C02': 'tolerated broadcast failures (shared with C16); per-instance cleanup list (no mutable class-level default mutated in place); release of a blocked step on exit is a result, never a cancel (asyncio.CancelledError is a BaseException); listeners notified over a SNAPSHOT; cleanup loop over the live list (late registrations run); launcher reply read after stepping (shared with C17)',
    'C03': 'event-guard isinstance rule for fail() (shared with C13); path-based flag pairing (raised in or just before a try, lowered on every exit incl. exception edges); exactly-once path rule on the reply future of _schedule_rpc (shared with C20: the deferred pause\'s hook error reaches the requester); finally blocks around user code neither raise, assert nor return (call-summary says which bodies may run user code); only non-Exception classes or package signals handled by name up the chain are re-raised ahead of a catch-all',
    'C04': 'decision table "while the waiting future is pending every way through Waiting.interrupt fails it with the reason"; path-sensitive resolver of the action built per interruption; listener notification over a snapshot inside the per-listener try (shared with C02); who-may-forget-a-pending-pause table fencing in known finding G5',
    'C05': 'decision table "the last awaitable completing always resolves the waiting future" (work chain); set_status stores whatever it is given; per-path fact queries (holds_on_every_path, site_fact_cases); decision tables of the message handlers over the intent: every control intent through the one scheduling routine (shared with C16); persisted rows of the pause status (shared with C07); listener snapshot (shared with C02); deferred pause interrupts the running state by a direct call; every awaited item watched / removed only by the done-callback; waiting future replaced only after an interruption',
    'C06': 'outcome of an interrupted step entered before the pause hooks (order rule on _do_pause); barrier-opens-when-empty decision table; state tables built per class (shared with C01 / C10); every awaited item watched / removed only by the done-callback; waiting future replaced only after an interruption; pause interrupts at once',
    'C07': 'key agreement over the save/load method CHAINS along the MRO per concrete class; declared-type rule (auto-persisted container of futures cannot be deep-copied); exception-class rule (constructor vs args, type-aware containment up to the EXCEPTED sink); persist() hook run before the member table is read, on the load side too (shared with C19); a saved mapping is handed to its constructor whole, never spread into named parameters; copy hooks keep the class; every YAML representer emits a tag a registered constructor reads back; loader precedence (shared with C19); member copy as a decision table; optional keys of the saved state restored one per KeyError handler (keys-restored-independently, shared with C08/C17); nested steppers restore their child from the instruction it was created from (selector-agreement, shared with C08); no auto-persisted member re-assigned after the members were restored (load-clobbers)',
    'C08': 'pause-hook order rule (shared with C06); resume-only wake-up of a restored WAITING state (shared with C13); container-of-futures member rule (shared with C07); every member deep-copied into the checkpoint, no by-type fast path (shared with C07); copy hooks of persisted containers keep the class; pickle persister: the file is the store -- every path of load_checkpoint reads it, or save and delete drop the kept entry under the same key expression (shared with C14); recreated stepper bound to the instruction itself; no fresh child stepper on load; waiting future replaced only after an interruption (shared with C06)',
    'C09': 'spec built per class (fresh spec, filled by cls.define, own-class cache lookup); alias rule (ToContext is dict itself); one reading of in-order loops (for / enumerate / range(len) / index-driven while); step wrapper returns the result unchanged (shared with C13); instructions are read-only after construction (no method but __init__ stores into the shared outline); fallback to unsuccessful FINISHED keeps the result (shared with C12); no fresh child stepper on load (shared with C08)',
    'C10': 'barrier-opens-when-empty decision table; state table built per class; alias rule (ToContext is dict); registry keyed by the awaitable found in loops and dict comprehensions alike; re-raise-ahead-of-catch-all rule (shared with C03: a cancelled awaitable\'s error is an Exception); per-instance table of awaited items (no mutable class-level default filled in place); every awaited item watched',
    'C11': 'construction order (initial state entered, i.e. inputs validated, before init() subscribes); every declared port validated in its loop iteration (no skipping continue); input encoding by deepcopy (shared with C07); a namespace is created only if absent (shared with C15); identity-compared sentinel copies to itself; every store of the frozen mapping\'s backing dict is a copy',
    'C12': 'every declared port validated in its loop iteration (shared with C11); outputs deep-copied into and out of a checkpoint through the encode / decode hooks (shared with C07); exposed ports are copies with a fresh container per namespace (shared with C15)',
    'C13': 'the coroutine wrapper of a plain step function returns the result unchanged (no await / unwrapping); foreign-result rule over the subclasses of the waiting state (a subclass wake-up must be a registered done-callback); Process.resume forwards *args unchanged (shared with C06)',
    'C14': 'taint walk: the pattern handed to fnmatch / glob is built from constants (a key spliced in unescaped is interpreted); string-building forms read alike (f-string / format / % / +); on every path load_checkpoint returns an object deserialised by this very call; file-is-the-store rule for the pickle persister\'s load path',
    'C15': 'constructor options of a namespace are properties with setters (what absorb copies is found by reflection); create-only-if-absent is a membership / is-None fact, not the truth value of a container; decision tables for the include+exclude rejection; identity-compared sentinel copies to itself (literal, or class whose copy hooks return self)',
    'C16': 'broadcast filter restricts the subject only; per-instance cleanup list; string-template reading of the announcement subject; the pid is assigned in what the constructor / the entering hook reaches (call graph), not in init(), so the first announcement carries it',
    'C17': 'class resolved by the loader of THIS load (shared with C19); persisted-field table (shared with C07); path-sensitive: on every path the instantiated class is the value of the loader call of this load; truth-value tests of the persister vs __len__/__bool__ of persister classes; loader-configured as a decision table over "a loader was given" with attribute values at exit spelled out along each path; what save leaves out of a checkpoint is what load fills in again (absent-means-the-same, shared with C07/C08); persist-without-persister rejection decided by path enumeration under the valuation',
    'C18': 'scope recognised as "with _process_scope()" or as push ... try/finally pop, helpers inlined',
    'C19': 'fact-based exception-saved rule; nested saves looked up in the helper-inlined views',
    'C20': 'alias rule (futures.Future is asyncio.Future itself); fact-based "cancelled() found false before result()"; adapter callback found as closure or as partial(private function, locals); a converted subscriber goes through create_task and plum_to_kiwi_future, the adapters whose paths are examined (shared with C16); the adapter callback is registered on every path through the adapter (no shortcut delivers the outcome some other way); callback found by role when split; create_task hands its coroutine to the loop through a thread-safe call (run_coroutine_threadsafe / call_soon_threadsafe): it is called from the communicator thread',
}
_COMMON = ('; all rules read the helper-inlined, alias-read-through, IfExp-lowered analysis VIEW of each function, on a program whose consistently renamed private names / local '
           'functions were renamed back against a committed fingerprint baseline and whose match / walrus / next() / search-loop / pair-update idioms were lowered to '
           'plain statements, ExitStack callbacks to the try/finally nest they unwind to, new optional parameters / class-level seams to their defaults (plumpy_sa/alpha.py); helpers are inlined to depth 4, (flag, value) records returned by helpers are split and their early returns restored, a private anchor helper folded into its only caller is read there; the must-fact dataflow keeps facts guarded by a local flag across joins; path rules prune branches the facts rule out; if a private attribute the rules are written against is no longer '
           'stored in its class the check answers ANALYSIS-ERROR (exit 2) instead of judging')
for _p, (_t, _x, _n) in list(CHECKS.items()):
    CHECKS[_p] = (_t + ('; ' + _ADD[_p] if _p in _ADD else '') + _COMMON, _x, _n)
