#!/venv/bin/python
"""Evaluate the stored seeded changes (/verif/seeded/<id>/) against the checks, in parallel (never part of a check).

usage: eval_seeds.py [--tests] [--meta] [Cxx | Cxx-n ...]

--tests : also run the repository's test suite against each patched copy
--meta  : (re)write seeded/<id>/meta.json from the result
Results are kept in /verif/out/seed_results/<id>.json (out/ is not committed).
"""
import json
import os
import subprocess
import sys
from concurrent.futures import ThreadPoolExecutor

HERE = os.path.dirname(os.path.dirname(os.path.abspath(__file__)))
SEEDED = os.path.join(HERE, 'seeded')
OUT = os.path.join(HERE, 'out', 'seed_results')
RETARGET = json.load(open(os.path.join(SEEDED, 'RETARGET.json'))) if os.path.exists(os.path.join(SEEDED, 'RETARGET.json')) else {}


def one(sid, tests):
    d = os.path.join(SEEDED, sid)
    cmd = ['/venv/bin/python', os.path.join(HERE, 'tools', 'eval_seed.py'), os.path.join(d, 'patch.diff'), os.path.join(d, 'demo.py')]
    if not tests:
        cmd.append('--no-tests')
    p = subprocess.run(cmd, capture_output=True, text=True)
    try:
        r = json.loads(p.stdout[p.stdout.index('{'):])
    except Exception as e:  # noqa: BLE001
        r = {'eval_error': repr(e), 'stderr': p.stderr[-400:]}
    with open(os.path.join(OUT, sid + '.json'), 'w') as fh:
        json.dump(r, fh, indent=1)
    return sid, r


def main(argv):
    tests = '--tests' in argv
    meta = '--meta' in argv
    sel = [a for a in argv if not a.startswith('--')]
    ids = sorted(x for x in os.listdir(SEEDED) if os.path.isdir(os.path.join(SEEDED, x)))
    if sel:
        ids = [i for i in ids if any(i == s or i.startswith(s + '-') for s in sel)]
    os.makedirs(OUT, exist_ok=True)
    with ThreadPoolExecutor(max_workers=int(os.environ.get('SEED_JOBS', '12'))) as ex:
        results = list(ex.map(lambda s: one(s, tests), ids))
    tally = {'own': 0, 'other': 0, 'missed': 0}
    for sid, r in results:
        if 'eval_error' in r:
            print(sid, 'EVAL-ERROR', r)
            continue
        p = RETARGET.get(sid, {}).get('property', sid.split('-')[0])   # (a seed that breaks another property than the one it was written for: seeded/RETARGET.json)
        fired = r.get('checks_fired', [])
        own = p in fired
        verdict = 'CAUGHT by own check' if own else ('caught by other' if fired else 'MISSED')
        tally['own' if own else ('other' if fired else 'missed')] += 1
        t = ('ok' if r.get('tests_pass') else r.get('tests')) if tests else '-'
        print(f"{sid}: applies={r.get('patch_applies')} demo clean/patched={r.get('demo_clean_rc')}/{r.get('demo_patched_rc')} tests={t} fired={fired} errors={r.get('checks_error')} -> {verdict}")
        if meta:
            mp = os.path.join(SEEDED, sid, 'meta.json')
            old = json.load(open(mp)) if os.path.exists(mp) else {}
            old.update({
                'property': p,
                'seed': sid,
                'demo_exit_clean_tree': r.get('demo_clean_rc'),
                'demo_exit_with_change': r.get('demo_patched_rc'),
                'checks_that_fire': fired,
                'checks_that_error': r.get('checks_error'),
                'first_reports': {k: v[:2] for k, v in r.get('detail', {}).items()},
                'how_evaluated': 'tools/eval_seed.py: src/ and tests/ of /repo copied to a temporary directory, patch applied there, demo.py run against the clean tree and the '
                                 'patched copy, the 186-test suite run against the patched copy, every quick check run with --repo <patched copy>; temporary directory removed',
            })
            if tests:
                old['test_suite_with_change'] = r.get('tests')
            json.dump(old, open(mp, 'w'), indent=1)
    print(tally)


if __name__ == '__main__':
    main(sys.argv[1:])
