#!/venv/bin/python
"""Anchor-deletion sweep (quality metric for the checker, not part of any check).

For every construct a discharged obligation of property P is anchored at (file:line of a statement), make a scratch copy of
/repo's src in which that one statement is neutralised (``pass`` / ``return None`` / test negated) and re-run P's check on it.
A check that stays silent when the very statement it reasoned about is gone either has a redundant obligation or a rule that
does not really look at the construct.  No oracle says these mutants break the property (many would fail the test suite), so
they are NOT corpus entries: the output is a list to read."""
import ast, contextlib, io, json, os, shutil, sys, tempfile
from concurrent.futures import ProcessPoolExecutor
HERE = os.path.dirname(os.path.dirname(os.path.abspath(__file__)))
sys.path.insert(0, HERE)
sys.dont_write_bytecode = True


def stmt_at(tree, line):
    best = None
    for n in ast.walk(tree):
        if isinstance(n, ast.stmt) and n.lineno == line and not isinstance(n, (ast.FunctionDef, ast.AsyncFunctionDef, ast.ClassDef)):
            if best is None or (n.end_lineno - n.lineno) < (best.end_lineno - best.lineno):
                best = n
    return best


def mutate(src, line):
    tree = ast.parse(src)
    st = stmt_at(tree, line)
    if st is None:
        return None, None
    lines = src.splitlines(keepends=True)
    indent = lines[st.lineno - 1][:len(lines[st.lineno - 1]) - len(lines[st.lineno - 1].lstrip())]
    if isinstance(st, (ast.Expr, ast.Assign, ast.AugAssign, ast.AnnAssign, ast.Raise, ast.Assert, ast.Delete)):
        new, kind = [indent + 'pass\n'], 'deleted'
    elif isinstance(st, ast.Return) and st.value is not None:
        new, kind = [indent + 'return None\n'], 'return-none'
    elif isinstance(st, (ast.If, ast.While)):
        seg = ast.get_source_segment(src, st.test)
        head = lines[st.test.lineno - 1]
        if st.test.lineno != st.test.end_lineno or seg is None:
            return None, None
        lines[st.test.lineno - 1] = head[:st.test.col_offset] + 'not (' + seg + ')' + head[st.test.end_col_offset:]
        return ''.join(lines), 'negated'
    else:
        return None, None
    out = lines[:st.lineno - 1] + new + lines[st.end_lineno:]
    return ''.join(out), kind


def run_one(job):
    pid, rel, line = job
    from plumpy_sa.cli import run_property
    from plumpy_sa.model import AnalysisError
    src = open(os.path.join('/repo', rel)).read()
    new, kind = mutate(src, line)
    if new is None:
        return (pid, rel, line, 'skip', '')
    try:
        compile(new, rel, 'exec')
    except SyntaxError:
        return (pid, rel, line, 'skip', '')
    tmp = tempfile.mkdtemp(prefix='plumpy_sweep_')
    try:
        shutil.copytree('/repo/src', os.path.join(tmp, 'src'))
        open(os.path.join(tmp, rel), 'w').write(new)
        os.environ['PLUMPY_SA_NO_EVIDENCE'] = '1'
        buf = io.StringIO()
        with contextlib.redirect_stdout(buf), contextlib.redirect_stderr(buf):
            try:
                rc = run_property(pid, 'quick', repo=tmp)
            except AnalysisError:
                rc = 2
            except Exception:
                rc = 2
        text = src.splitlines()[line - 1].strip()[:90]
        return (pid, rel, line, {0: 'SILENT', 1: 'fired', 2: 'analysis-error'}[rc] + ':' + kind, text)
    finally:
        shutil.rmtree(tmp, ignore_errors=True)


def main(argv):
    props = [a for a in argv if a.startswith('C')] or [f'C{i:02d}' for i in range(1, 21)]
    jobs = []
    for p in props:
        ev = json.load(open(os.path.join(HERE, 'evidence', p + '.json')))
        seen = set()
        for o in ev['coverage'].get('samples', []):
            w = o.get('where', '')
            if ':' in w and w.startswith('src/') and o.get('verdict') == 'discharged':
                rel, rest = w.split(':', 1)
                line = int(rest.split()[0])
                if (rel, line) not in seen:
                    seen.add((rel, line))
                    jobs.append((p, rel, line))
    with ProcessPoolExecutor(max_workers=int(os.environ.get('SWEEP_JOBS', '14'))) as ex:
        res = list(ex.map(run_one, jobs))
    tot = {}
    for pid, rel, line, out, text in res:
        t = tot.setdefault(pid, {'fired': 0, 'SILENT': 0, 'analysis-error': 0, 'skip': 0})
        t[out.split(':')[0]] += 1
        if out.startswith('SILENT'):
            print(f'{pid} SILENT {out.split(":")[1]:12s} {rel}:{line}  {text}')
    for pid, t in sorted(tot.items()):
        print(pid, t)
    json.dump(res, open(os.path.join(HERE, 'out', 'anchor_sweep.json'), 'w'), indent=0)


if __name__ == '__main__':
    main(sys.argv[1:])
