#!/bin/sh
# on_refac.sh <name> <Cxx> [...]: run the given checks on a scratch copy of /repo with refactorings/<name>.diff applied (helper, not a check)
n=$1; shift
t=$(mktemp -d /tmp/plumpy_onrefac_XXXX)
cp -r /repo/src $t/ && patch -p1 -s -d $t -i /verif/refactorings/$n.diff
for p in "$@"; do PLUMPY_SA_NO_EVIDENCE=1 /verif/check $p --repo $t 2>&1 | grep -v conda | grep -E "^  |ANALYSIS|Error|^\[" | grep -v KNOWN | cut -c1-${COLS:-500}; done
rm -rf $t
