#!/venv/bin/python
"""gen_member_baseline.py [repo] -- (re)write plumpy_sa/member_baseline.json, the usage fingerprints of every private name of the
tree the checkers are written against (see plumpy_sa/alpha.py).  Run on the clean tree after a fix: commit; not part of any check."""
import os, sys
HERE = os.path.dirname(os.path.dirname(os.path.abspath(__file__)))
sys.path.insert(0, HERE)
from plumpy_sa import alpha
from plumpy_sa.model import Program
if os.path.exists(alpha.BASELINE):
    os.remove(alpha.BASELINE)
prog = Program(sys.argv[1] if len(sys.argv) > 1 else None)
n = alpha.write_baseline({k: m.tree for k, m in prog.modules.items()})
print(f'{n} private names fingerprinted -> {alpha.BASELINE}')
