#!/venv/bin/python
"""compose_variants.py [n_trees] [variants_per_tree] [seed] -- robustness probe, not part of any check.

Builds scratch trees (under a temporary directory, removed afterwards) from /repo/src with several behaviour-preserving variants of refactorings/ applied TOGETHER
(those that still apply cleanly on top of each other, the "cannot read" ones of UNREADABLE.json left out; the tree has to compile), runs all 20 quick checks on each
with --repo, and prints every alarm / analysis error.  A composition of behaviour-preserving changes is behaviour-preserving: the expected output is nothing.
"""
import contextlib, glob, io, json, os, random, shutil, subprocess, sys, tempfile
from concurrent.futures import ProcessPoolExecutor
HERE = os.path.dirname(os.path.dirname(os.path.abspath(__file__)))
sys.path.insert(0, HERE)


def build(args):
    k, per, seed = args
    rnd = random.Random(seed * 1000 + k)
    vs = sorted(glob.glob(os.path.join(HERE, 'refactorings', 'R*.diff')))
    un = set(json.load(open(os.path.join(HERE, 'refactorings', 'UNREADABLE.json'))))
    t = tempfile.mkdtemp(prefix='plumpy_compose_')
    shutil.copytree('/repo/src', os.path.join(t, 'src'))
    applied = []
    for x in rnd.sample(vs, per + 3):
        n = os.path.basename(x)[:-5]
        if n in un or len(applied) >= per:
            continue
        if subprocess.run(['patch', '-p1', '-s', '-F', '0', '--dry-run', '-d', t, '-i', x], capture_output=True).returncode != 0:
            continue
        subprocess.run(['patch', '-p1', '-s', '-F', '0', '-d', t, '-i', x, '--no-backup-if-mismatch'], capture_output=True)
        applied.append(n)
    out = []
    if subprocess.run([sys.executable, '-m', 'compileall', '-q', os.path.join(t, 'src')], capture_output=True).returncode == 0 and len(applied) >= 2:
        os.environ['PLUMPY_SA_NO_EVIDENCE'] = '1'
        from plumpy_sa.cli import run_property
        from plumpy_sa.model import AnalysisError
        for i in range(1, 21):
            pid = f'C{i:02d}'
            buf = io.StringIO()
            try:
                with contextlib.redirect_stdout(buf):
                    rc = run_property(pid, 'quick', t, None)
            except AnalysisError as e:
                out.append(f'{"+".join(applied)} {pid} ANALYSIS-ERROR {str(e)[:160]}')
                continue
            if rc != 0:
                v = [l.strip()[:200] for l in buf.getvalue().splitlines() if l.startswith('  ') and 'KNOWN' not in l]
                out.append(f'{"+".join(applied)} {pid} ALARM ' + ' || '.join(v[:2]))
    else:
        applied = []
    shutil.rmtree(t, ignore_errors=True)
    return len(applied), out


if __name__ == '__main__':
    n = int(sys.argv[1]) if len(sys.argv) > 1 else 64
    per = int(sys.argv[2]) if len(sys.argv) > 2 else 6
    seed = int(sys.argv[3]) if len(sys.argv) > 3 else 1
    with ProcessPoolExecutor(max_workers=int(os.environ.get('SELFTEST_JOBS', '8'))) as ex:
        res = list(ex.map(build, [(k, per, seed) for k in range(n)]))
    trees = sum(1 for a, _ in res if a)
    for _, out in res:
        for l in out:
            print(l)
    print(f'compose: {trees} trees, {sum(a for a, _ in res) / max(1, trees):.1f} variants each, {sum(len(o) for _, o in res)} alarm(s) / analysis error(s)')
