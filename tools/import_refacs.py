#!/venv/bin/python
"""import_refacs.py <root> Rxx [Ryy ...] -- take the behaviour-preserving variants a sub-agent left in <root>/<Rxx>/refac/{patch,notes}<i>.*,
confirm each (applies to the clean tree; the unedited suite passes with it) and only then store it as /verif/refactorings/<Rxx>-<i>.{diff,md}
(documentation/evaluation helper, not part of any check)."""
import glob, os, shutil, subprocess, sys, tempfile
from concurrent.futures import ThreadPoolExecutor
HERE = os.path.dirname(os.path.dirname(os.path.abspath(__file__)))
root = sys.argv[1]


def one(job):
    name, patch, notes = job
    tmp = tempfile.mkdtemp(prefix='plumpy_refac_import_')
    try:
        for d in ('src', 'tests'):
            shutil.copytree(os.path.join('/repo', d), os.path.join(tmp, d))
        for f in ('pyproject.toml',):
            shutil.copy(os.path.join('/repo', f), tmp)
        p = subprocess.run(['patch', '-p1', '-d', tmp, '-i', patch, '--no-backup-if-mismatch'], capture_output=True, text=True)
        if p.returncode != 0:
            return name, False, 'patch failed'
        env = dict(os.environ, PYTHONPATH=os.path.join(tmp, 'src'), PYTHONDONTWRITEBYTECODE='1')
        r = subprocess.run(['/venv/bin/python', '-m', 'pytest', '-q', '-p', 'no:cacheprovider', '--ignore=tests/rmq', '-x'], cwd=tmp, env=env, capture_output=True, text=True)
        tail = r.stdout.strip().splitlines()[-1] if r.stdout.strip() else r.stderr[-200:]
        ok = r.returncode == 0 and '186 passed' in tail
        if ok:
            shutil.copy(patch, os.path.join(HERE, 'refactorings', name + '.diff'))
            if os.path.exists(notes):
                shutil.copy(notes, os.path.join(HERE, 'refactorings', name + '.md'))
        return name, ok, tail
    finally:
        shutil.rmtree(tmp, ignore_errors=True)


jobs = []
for r in sys.argv[2:]:
    for patch in sorted(glob.glob(os.path.join(root, r, 'refac', 'patch*.diff'))):
        i = os.path.basename(patch)[5:-5]
        jobs.append((f'{r}-{i}', patch, os.path.join(root, r, 'refac', f'notes{i}.md')))
with ThreadPoolExecutor(8) as ex:
    for name, ok, tail in ex.map(one, jobs):
        print(name, 'stored' if ok else 'NOT STORED', tail)
