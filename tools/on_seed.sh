#!/bin/sh
# on_seed.sh <seed-id> <Cxx> [...]: run the given checks on a scratch copy of /repo with the seeded patch applied (helper, not a check)
sid=$1; shift
t=$(mktemp -d /tmp/plumpy_onseed_XXXX)
cp -r /repo/src $t/ && patch -p1 -s -d $t -i /verif/seeded/$sid/patch.diff
for p in "$@"; do PLUMPY_SA_NO_EVIDENCE=1 /verif/check $p --repo $t 2>&1 | grep -v conda | grep -E "^  |ANALYSIS|^\[" | cut -c1-${COLS:-420}; done
rm -rf $t
