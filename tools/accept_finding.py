#!/venv/bin/python
"""Record a triaged, reproduced GENUINE defect as a known finding (never run by a check; never at run time).

usage: accept_finding.py <violation.json> <finding id> <repro path> <what fails ...>
"""
import json
import sys

vio, fid, repro, what = sys.argv[1], sys.argv[2], sys.argv[3], ' '.join(sys.argv[4:])
v = json.load(open(vio))
k = json.load(open('/verif/known_findings.json'))
entry = {'property': v['property'], 'id': fid, 'rule': v['key']['rule'], 'construct': v['key']['construct'],
         'expr': v['key']['expr'], 'kind': v['key']['kind'], 'what': what, 'repro': repro}
for e in k['findings']:
    if all(e[x] == entry[x] for x in ('property', 'rule', 'construct', 'expr', 'kind')):
        print('already listed')
        break
else:
    k['findings'].append(entry)
    json.dump(k, open('/verif/known_findings.json', 'w'), indent=1)
    print('added', entry['property'], fid)
